#!/bin/bash
# tools/confirm_mutant.sh <seeded-id> <worktree> <PROPERTY> <demo-test-name> [extra cargo test args]
# Confirms a seeded change myself: (a) with the change the repo's own 41 tests pass, (b) the demo fails with the change,
# (c) the demo passes without it. Copies patch/demo/README into /verif/seeded/<seeded-id>/ and writes confirm.log there.
ID=$1; W=$2; PROP=$3; DEMO=$4; shift 4; EXTRA="$@"
OUT=/verif/seeded/$ID; mkdir -p $OUT
cp $W/mutant/patch.diff $OUT/patch.diff
cp $W/mutant/$DEMO.rs $OUT/$DEMO.rs 2>/dev/null || cp $W/tests/$DEMO.rs $OUT/$DEMO.rs
cp $W/mutant/README.md $OUT/AGENT_README.md 2>/dev/null
L=$OUT/confirm.log; : > $L
cd $W || exit 9
export CARGO_NET_OFFLINE=true
echo "== worktree $W, HEAD $(git rev-parse --short HEAD), change applied: $(git diff --stat -- src | tail -1)" >> $L
echo "== (a) repo test suite WITH the change" >> $L
cargo test --offline --lib 2>&1 | grep -E "^test result|FAILED|error(\[|:)" >> $L
echo "== (b) demo WITH the change (expected: fails)" >> $L
cargo test --offline $EXTRA --test $DEMO ${POST_ARGS:-} 2>&1 | grep -E "^test |^test result|error(\[|:)" | head -20 >> $L
git apply -R mutant/patch.diff || { echo "cannot reverse patch" >> $L; exit 9; }
echo "== (c) demo WITHOUT the change (expected: passes)" >> $L
cargo test --offline $EXTRA --test $DEMO ${POST_ARGS:-} 2>&1 | grep -E "^test |^test result|error(\[|:)" | head -20 >> $L
git apply mutant/patch.diff
echo "== done" >> $L
cat $L
