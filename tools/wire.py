#!/usr/bin/env python3
"""tools/wire.py C01 C02 ...: register property modules in src/props/mod.rs and src/main.rs"""
import sys, re
base='/verif/harness/'
p=base+'src/props/mod.rs'; s=open(p).read()
m=base+'src/main.rs'; t=open(m).read()
mods=set(re.findall(r'^pub mod (c\d+);', s, re.M))
arms=set(re.findall(r'"(C\d+)" => \$f', t))
for i in sys.argv[1:]:
    mods.add(i.lower()); arms.add(i)
s=re.sub(r'^(pub mod c\d+;\n)+', ''.join(f'pub mod {x};\n' for x in sorted(mods)), s, count=1, flags=re.M)
t=re.sub(r'(            "C\d+" => \$f::<props::c\d+::C\d+>\(\$\(\$arg\),\*\),\n)+',
         ''.join(f'            "{x}" => $f::<props::{x.lower()}::{x}>($($arg),*),\n' for x in sorted(arms)), t, count=1)
open(p,'w').write(s); open(m,'w').write(t)
print(sorted(arms))
