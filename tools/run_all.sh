#!/bin/bash
# tools/run_all.sh [tier] [ids...]: run the checks of all claimed properties one after the other, print one line each
cd "$(dirname "$0")/.."
TIER=${1:-quick}; shift
IDS=${@:-$(python3 -c "import json;print(' '.join(c['property_id'] for c in json.load(open('MANIFEST.json'))['checks']))")}
for id in $IDS; do
  s=$(date +%s)
  out=$(./check $id $TIER 2>&1); rc=$?
  e=$(date +%s)
  echo "$id rc=$rc $((e-s))s $(echo "$out" | grep -E '^(HELD|VIOLATED|INCONCLUSIVE|VIOLATION)' | head -3 | cut -c1-220 | tr '\n' ' ')"
done
