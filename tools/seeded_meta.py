#!/usr/bin/env python3
"""tools/seeded_meta.py <seeded-id> <PROPERTY> <needs> <detected-by> : write /verif/seeded/<id>/meta.json"""
import json, sys, os, subprocess
sid, prop, needs, detected = sys.argv[1:5]
d = f"/verif/seeded/{sid}"
log = open(f"{d}/confirm.log").read() if os.path.exists(f"{d}/confirm.log") else ""
meta = {
    "id": sid,
    "property": prop,
    "breaks": prop,
    "source": "fresh sub-agent given only the property text and its own scratch git worktree of /repo (nothing from /verif)",
    "needs_to_manifest": needs,
    "files": sorted(f for f in os.listdir(d) if f != "meta.json"),
    "what_i_ran": [
        "tools/confirm_mutant.sh: in the sub-agent's worktree, with the change applied: cargo test --offline --lib (the repo's own 41 tests) -> pass; cargo test --test <demo> -> fails; after git apply -R: cargo test --test <demo> -> passes (see confirm.log)",
        "tools/scratch.sh sync && tools/scratch.sh patch <patch.diff> && tools/scratch.sh run " + prop + " quick  (harness built against a scratch copy of /repo with the patch applied)",
    ],
    "confirmed": {
        "repo_tests_pass_with_change": "41 passed" in log,
        "demo_fails_with_change": (("FAILED" in log.split("== (c)")[0]) or ("error: test failed" in log.split("== (c)")[0])) if "== (c)" in log else None,
        "demo_passes_without_change": ("test result: ok" in log.split("== (c)")[1]) if "== (c)" in log else None,
    },
    "detected_by": detected,
}
json.dump(meta, open(f"{d}/meta.json", "w"), indent=1)
print(json.dumps(meta["confirmed"]))
