#!/bin/bash
# tools/scratch.sh init            create /tmp/scratch/{repo,harness,vd}: copies of /repo (tracked files) and the harness pointing at it
# tools/scratch.sh sync            re-copy the harness sources and reset the repo copy to /repo's HEAD working tree
# tools/scratch.sh run <ID> [tier] build the scratch harness and run the check there (evidence/replays under /tmp/scratch/vd)
# tools/scratch.sh patch <file>    apply a patch (git diff format) to the scratch repo copy
# tools/scratch.sh revert <sha>    reverse-apply a commit of /repo to the scratch repo copy
# tools/scratch.sh clean           remove /tmp/scratch
set -u
S=/tmp/scratch
case "${1:-}" in
  init|sync)
    mkdir -p $S/vd $S/repo $S/harness
    rsync -a --delete --exclude target --exclude .git /repo/ $S/repo/
    rsync -a --delete --exclude target /verif/harness/ $S/harness/
    sed -i 's#path = "/repo"#path = "/tmp/scratch/repo"#' $S/harness/Cargo.toml
    cp /verif/known_findings.json $S/vd/ 2>/dev/null
    ;;
  run)
    ID=$2; TIER=${3:-quick}
    ( cd $S/harness && cargo build --offline --profile checked 2>&1 | grep -E "^error" -A8 | head -20 )
    cp /verif/known_findings.json $S/vd/ 2>/dev/null
    TUVERIF_DIR=$S/vd TUVERIF_NO_EXTRA=${TUVERIF_NO_EXTRA-1} $S/harness/target/checked/tuverif supervise $ID --tier $TIER --seed ${VERIF_SEED:-0} | cut -c1-${CUT:-500} | head -${LINES_MAX:-8}
    echo "exit=${PIPESTATUS[0]}"
    ;;
  patch)
    ( cd $S/repo && patch -p1 < "$2" )
    ;;
  revert)
    git -C /repo show "$2" -- src | ( cd $S/repo && patch -R -p1 )
    ;;
  clean)
    rm -rf $S
    ;;
  *) echo "usage: scratch.sh init|sync|run|patch|revert|clean"; exit 2;;
esac
