#!/usr/bin/env python3
"""Generates /verif/MANIFEST.json from the table below (single source of truth for what is claimed)."""
import json, os, subprocess

VERIF = os.path.dirname(os.path.dirname(os.path.abspath(__file__)))

# id -> (level, technique, level text, note, design ref)   -- only properties whose check exists
CLAIMED = {
    "C12": ("exploration",
            "differential runtime oracle: real edit::{distance,operations,prefix_distance,distances} vs an independent memoised restricted-OSA reference on seeded dense small-alphabet pairs; Miri lane in thorough",
            "Every generated pair runs the real functions and is judged by an independent reference dynamic programme and by applying the returned script; held on the executions listed in the evidence (10^5-10^6 pairs per run, all flag combinations), which is the strongest statement runtime monitoring can make about a universally quantified pure function.",
            "trusted: unicode-segmentation for character boundaries, the harness reference implementation, rustc. Inputs are sampled, not exhausted.",
            "DESIGN.md 6/C12"),
    "C05": ("exploration",
            "schedule exploration on the real threads: controller serialises workers and consumer at cfg(feature=verif) hook points (random walk / PCT / burst / biased strategies), free-running stress with seeded delay injection, deadlock verdict from observed futility; exactly-once + order oracle over uniquely tagged items; Miri many-seeds lane in thorough",
            "Each case is one real execution of Pipe with W worker threads under a controller-chosen or delay-perturbed interleaving, judged by an order/exactly-once/termination oracle; held on the K distinct interleavings listed in the evidence. Schedules are sampled, not exhausted, at hook-point granularity (sub-point windows only through burst steps, the chaos lane and Miri).",
            "trusted: the hook points do not change behaviour when no callback is installed; /proc thread states for blocking detection; sequentially consistent view at hook granularity.",
            "DESIGN.md 6/C05"),
    "C09": ("fault_enumeration",
            "fault points (stack kind x W x buffer x k consumed before idle/drop x upstream length) enumerated by a seeded generator and executed on the real threads under controlled and delay-perturbed schedules; count monitor inside the upstream iterator (pulled-consumed, pulled-after-drop), Drop-event oracle for thread exit, futility-based stuck detection; child processes for panicking workers",
            "Every fault point is executed on the real code; verdicts are counts and observed events (pull counts against a bound independent of the upstream length, Drop of the upstream iterator, child exit status), not timers. Held on the fault points and interleavings listed in the evidence.",
            "trusted: bound L = 4*(W+buffer)+8 as the meaning of 'bounded'; /proc thread states; the child process runs the repo's own panic hook.",
            "DESIGN.md 6/C09"),
    "C13": ("exploration",
            "runtime oracle over seeded triples: totality under catch_unwind, range checks, calibration identities derived from an independent word-LCS, whitespace-operation set algebra and F-beta aggregation recomputed by the harness, formula checks for accuracy/binary_f1/mean edit distances",
            "Each generated triple list runs all metric functions of the real crate; values are compared with independently recomputed ones on NFKC-stable text and judged on no-panic/range on arbitrary Unicode. Held on the executions listed in the evidence.",
            "trusted: the harness's own clean/LCS/Levenshtein/whitespace-operation references; value checks restricted to NFKC-stable, grapheme-safe text.",
            "DESIGN.md 6/C13"),
    "C01": ("exploration",
            "differential runtime oracle: real byte/char tokenizers vs an independent special-token scanner and character segmentation on seeded Unicode strings x tokenizer configs; decode round trip",
            "Every generated (config, texts) case builds the real tokenizer and is judged against an independent reference scanner (byte) / per-character expectations (char) and the decode round trip. Held on the executions listed in the evidence.",
            "trusted: unicode-segmentation for grapheme boundaries; overlapping special spellings are judged on the round trip only (segmentation not prescribed).",
            "DESIGN.md 6/C01"),
    "C04": ("exploration",
            "exhaustive id sweep per generated tokenizer: vocab_size/get_vocab/id_to_token/token_to_id/de_tokenize consistency for byte, char and BPE tokenizers over generated special configs and merge tables incl. every max_vocab_size cut point",
            "For each generated tokenizer every id in [0, vocab_size+300) and u32::MAX is checked against get_vocab; tokenizers are sampled, ids within one are enumerated. Held on the tokenizers listed in the evidence.",
            "trusted: the merge-table generator's notion of well-formed; special spellings equal to regular tokens are excluded.",
            "DESIGN.md 6/C04"),
    "C08": ("exploration",
            "differential monitoring of the real TrainLoader (hook H3): reference run vs thread/buffer variants under delay injection, rebuilt loaders (same and fresh process), all ranks of a world, limit/skip split, fast_forward restarts; streams compared as lists/multisets of item fingerprints",
            "Each case runs the real loader 12-25 times on generated files and pipelines and compares the observed streams; held on the cases and loader runs listed in the evidence. Thread schedules of the three-layer loader are perturbed (threads, buffers, injected delays), not controlled.",
            "trusted: global line order for a (strategy, seed) comes from the repo's own generator (C07); fast_forward(k) read as 'items with global index >= k'.",
            "DESIGN.md 6/C08"),
    "C17": ("exploration",
            "runtime structural oracle: group partition sums, sparse COO index bijection and per-group weight sums, padded matrices vs item values, on seeded strings, byte configs and batches",
            "Every generated batch runs the real tokenizer / token_groups_to_sparse_coo_matrix / padding_mask / tensorize and is judged by structural invariants recomputed independently. Held on the executions listed in the evidence.",
            "trusted: unicode-segmentation; padding-mask polarity and matrix width are left free as the statement does not fix them.",
            "DESIGN.md 6/C17"),
    "C02": ("exploration",
            "runtime round-trip oracle: real BPETokenizer built from generated / adversarial / train_bpe-produced merge tables; decode == input (modulo trailing whitespace), id range and vocab byte concatenation checks",
            "Every case builds real tokenizers from a merge file written in the repo's own format and checks losslessness on 5-24 strings; held on the (table, string) pairs listed in the evidence.",
            "trusted: the generator's notion of a well-formed table; char::is_whitespace == regex \\s (Unicode White_Space).",
            "DESIGN.md 6/C02"),
    "C03": ("exploration",
            "differential runtime oracle: real BPETokenizer ids vs an independent quadratic lowest-id/leftmost reference BPE (no regex, no heap) on tables with dense overlapping/competing merges",
            "Every (table, string) pair compares the real token ids with the reference merge loop for equality; held on the pairs listed in the evidence (hundreds of thousands of words with multi-level merges per quick run).",
            "trusted: the reference BPE in the harness; tables keyed by concatenation as in the repo.",
            "DESIGN.md 6/C03"),
    "C15": ("exploration",
            "allowed-outcome-set oracle: every real edit_word call (chains of up to 6 on one seeded rng, real Insert/Replace/Delete/Swap providers) must be a member of the enumerated legal single edits with the prescribed exclusion set; direct provider calls vs table lookup; real SpellingCorruption pipeline for no-panic/determinism; release-profile lane in thorough",
            "Each step of each chain is judged by membership in an enumerated set of allowed outcomes plus the protection clause on the re-segmented result; held on the calls listed in the evidence.",
            "trusted: unicode-segmentation; every insertion position is treated as legal (the statement allows 'unchanged or one edit').",
            "DESIGN.md 6/C15"),
    "C06": ("exploration",
            "conservation / exactly-once monitor over uniquely tagged items through the real Batched iterator: partition, non-empty batches, limit, determinism per seed, greedy-maximality vs a reference batcher when unsorted; direct checks of find_subsequences_of_max_size_k; CPU-time non-termination verdict; release-profile and Miri lanes in thorough",
            "Every generated (size sequence, configuration) runs the real iterator to exhaustion and is judged by conservation and limit invariants; held on the executions listed in the evidence (10^6 per quick run).",
            "trusted: limit = max(1, batch_limit) and prefetch = max(1, ..) as documented by the constructor; batch composition under sort/shuffle is free.",
            "DESIGN.md 6/C06"),
    "C07": ("exploration",
            "exactly-once / per-source order monitor over uniquely tagged items through the real MultiTrainDataGenerator, round-robin reference for interleaved, same-seed reproducibility for weighted, CPU-time non-termination verdict (supervisor), Miri lane in thorough",
            "Every generated vector of source lengths x strategy x seed is iterated to the end on the real generator and judged by an exactly-once/order oracle; non-termination is decided in CPU time by the supervisor. Held on the executions listed in the evidence.",
            "trusted: round-robin semantics 'cycle over the sources that still have items, starting at 0'.",
            "DESIGN.md 6/C07"),
    "C16": ("exploration",
            "runtime tiling oracle: windows of the real windows::{windows,char,byte} checked for partition, context bounds, slice equality and byte/char boundary agreement; justified-error oracle; extreme-limit lane; CPU-time non-termination verdict; release-profile and Miri lanes in thorough",
            "Every generated (text, configuration) is judged by structural invariants recomputed from the characters of the text; held on the executions listed in the evidence (4*10^6 per quick run).",
            "trusted: unicode-segmentation; an Err is justified iff max <= 2*context or a character is wider than max - 2*context.",
            "DESIGN.md 6/C16"),
    "C18": ("exploration",
            "differential runtime oracle: real match_words / edited_words vs an independent LCS dynamic programme; monotonicity, equality and complement checks; Miri lane in thorough",
            "Every generated pair of word sequences is judged against an independent LCS length and structural checks of the returned matching; held on the executions listed in the evidence.",
            "trusted: the harness LCS; inputs use ASCII whitespace and letters with 1:1 case mapping only.",
            "DESIGN.md 6/C18"),
    "C19": ("exploration",
            "offline replay of the merge table written by the real train_bpe against an independent recount of pair frequencies (greedy-maximality at every step, ids 0..n-1, exhaustion), for several thread counts per corpus; tokenizer built from the table checked for losslessness and vocabulary consistency",
            "Every training run of every case is judged on its own by replaying the table against recounted statistics; counting schedules are whatever the OS produces for 0-32 threads on contention-heavy corpora. Held on the trainings listed in the evidence.",
            "trusted: the harness recount (split_whitespace words, leading space from the second word on) on NFKC-stable text; ties may be broken either way.",
            "DESIGN.md 6/C19"),
    "C10": ("exploration",
            "inverse-law and preservation oracle on the real whitespace::{operations,repair}: generated pairs of re-spacings (both directions), arbitrary strings x arbitrary operation sequences (non-whitespace content preserved, all-Keep identity, length mismatch is Err); Miri lane in thorough",
            "Every generated pair / (string, ops) runs the real functions and is judged by the inverse law and the preservation clause; held on the executions listed in the evidence (10^6 per quick run).",
            "trusted: unicode-segmentation; strings with clusters that mix whitespace and other code points are outside the quantifier (no-panic only).",
            "DESIGN.md 6/C10"),
    "C11": ("exploration",
            "differential runtime oracle: real clean / word_boundaries / remove / full vs references built only on char::is_whitespace and split_whitespace, over every Unicode White_Space code point and look-alikes; Miri lane in thorough",
            "Every generated string is judged against the split-join normal form, idempotence, and independently scanned word ranges; held on the executions listed in the evidence.",
            "trusted: char::is_whitespace as the definition of whitespace; unicode-segmentation in grapheme mode.",
            "DESIGN.md 6/C11"),
    "C14": ("exploration",
            "runtime oracle on the real WhitespaceCorruption preprocessing and the whitespace-correction task: untouched part identical, non-whitespace sequence preserved, output clean, operations/repair recover the original, label count and values, determinism per (text, seed) across two separately built functions, probability-0 clauses",
            "Every generated (clean text, probabilities, seed, tokenizer config) runs the real preprocessing and task functions; held on the executions listed in the evidence.",
            "trusted: the harness's independent code-point alignment for counting insertions / deletions; unicode-segmentation.",
            "DESIGN.md 6/C14"),
    "C20": ("exploration",
            "differential runtime oracle: real Dictionary::create (word / char-1 / char-3 modes) vs an independent regex-free counter, repeated for thread counts 0..255 and compared between runs; top-k cut, freq_sum, save/load round trip, get, get_closest vs the harness's own Levenshtein; release-profile lane in thorough",
            "Every case creates the dictionary several times with different thread counts from generated files and compares each result with an independent count and with the other runs; held on the creates listed in the evidence. Counting schedules are whatever the OS produces.",
            "trusted: the harness's reference counter (validated against split_words / normalize on its restricted alphabet); ties at the cut may be broken either way.",
            "DESIGN.md 6/C20"),
}

PENDING_REASON = "monitor not built yet in this session (planned in DESIGN.md section 6); not claimed until its check exists and is silent on the unchanged tree"

def main():
    props = [json.loads(l) for l in open(os.path.join(VERIF, "properties.jsonl"))]
    hooks = subprocess.run(["git", "-C", "/repo", "log", "--format=%H %s", "--grep=^verif hooks"],
                           capture_output=True, text=True).stdout.strip().splitlines()
    checks = []
    na = []
    for p in props:
        pid = p["id"]
        if pid in CLAIMED:
            level, tech, text, note, ref = CLAIMED[pid]
            if pid in ("C05", "C08", "C09"):
                tech += "; a `long` lane pushes more than 2^16 items through one pipe"
            else:
                tech += "; a `large` lane repeats the workload with lengths x10/x50/x250 and shapes beyond 2^8 / 2^16"
            checks.append({
                "property_id": pid,
                "quick_cmd": f"./check {pid} quick",
                "thorough_cmd": f"./check {pid} thorough",
                "evidence_file": f"/verif/evidence/{pid}.json",
                "replay_cmd_template": f"./check {pid} --replay {{path}}",
                "engine": "tuverif",
                "level_claimed": {"category": level, "text": text, "design_ref": ref},
                "level_note": note,
                "technique": tech,
            })
        else:
            na.append({"property_id": pid, "reason": NOT_APPLICABLE.get(pid, PENDING_REASON)})
    m = {
        "version": 1,
        "setup_cmd": "./setup.sh",
        "hooks": {
            "guard": "cargo feature `verif` of the text-utils crate (off by default)",
            "enable": "the harness crate /verif/harness depends on text-utils = { path = \"/repo\", features = [\"verif\"] }; ./check rebuilds it from /repo's working tree with cargo build --offline",
            "baseline_off_cmd": "cd /repo && cargo test --workspace --no-fail-fast --offline",
            "source_commits": [h.split()[0] for h in reversed(hooks)],
            "add_only": True,
        },
        "engines": [{
            "name": "tuverif",
            "path": "/verif/harness",
            "serves_properties": sorted(CLAIMED),
            "kind_free_text": "Rust harness linked against the real crate: seeded workload generators, reference-model / conservation / ordering oracles, schedule controller and delay injection over cfg(feature=verif) hook points, supervisor with CPU-time non-termination verdicts; Miri and ASan lanes re-run reduced workloads of the same worker code",
        }],
        "checks": checks,
        "notes": "Exit codes of ./check: 0 held on everything explored, 1 violated (VIOLATION line), 2 inconclusive (INCONCLUSIVE line; never folded into the others). VERIF_SEED selects the workload; known_findings.json lists recorded genuine defects.",
        "not_applicable": na,
    }
    with open(os.path.join(VERIF, "MANIFEST.json"), "w") as f:
        json.dump(m, f, indent=1)
        f.write("\n")

NOT_APPLICABLE = {}

if __name__ == "__main__":
    main()
