#!/bin/bash
# tools/mutate.sh <ID> <file-in-repo> <python-expr old> <python-expr new> [tier]  -- apply a textual mutation to /repo, run the check, restore
ID=$1; F=$2; OLD=$3; NEW=$4; TIER=${5:-quick}
cd /repo || exit 9
if ! git diff --quiet; then echo "repo dirty, refusing"; exit 9; fi
python3 - "$F" "$OLD" "$NEW" <<'PY'
import sys
f,old,new=sys.argv[1:4]
s=open(f).read()
assert s.count(old)>=1, "pattern not found"
s=s.replace(old,new,1)
open(f,'w').write(s)
PY
rc=$?
if [ $rc -ne 0 ]; then git checkout -- .; exit 9; fi
git diff | head -30
cd /verif && ./check $ID $TIER | cut -c1-400 | head -${LINES_MAX:-12}
echo "check exit=${PIPESTATUS[0]}"
git -C /repo checkout -- .
