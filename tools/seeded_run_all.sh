#!/bin/bash
# tools/seeded_run_all.sh [ids...]: run the quick check of the property of every seeded change against a copy of the
# repository with the patch applied (scratch copy under /tmp/scratch; USE_REPO=1: apply to /repo itself, run ./check,
# and undo with git checkout). Prints one line per seeded change and writes seeded/RESULTS.md.
cd "$(dirname "$0")/.."
IDS=${@:-$(ls seeded | grep -v RESULTS)}
OUT=seeded/RESULTS.md
echo "| seeded change | property | quick check exit | first signatures |" > $OUT.tmp
echo "|---|---|---|---|" >> $OUT.tmp
for id in $IDS; do
  d=seeded/$id
  [ -f $d/patch.diff ] || continue
  prop=$(python3 -c "import json;print(json.load(open('$d/meta.json'))['property'])")
  if [ "${USE_REPO:-0}" = 1 ]; then
    if ! git -C /repo diff --quiet; then echo "/repo dirty"; exit 9; fi
    git -C /repo apply $PWD/$d/patch.diff || { echo "$id: patch does not apply"; continue; }
    out=$(./check $prop quick 2>&1); rc=$?
    git -C /repo checkout -- .
  else
    tools/scratch.sh sync >/dev/null
    ( cd /tmp/scratch/repo && patch -s -p1 < /verif/$d/patch.diff ) || { echo "$id: patch does not apply"; continue; }
    out=$(LINES_MAX=40 CUT=400 tools/scratch.sh run $prop 2>&1); rc=$(echo "$out" | grep -o "exit=[0-9]*" | tail -1 | cut -d= -f2)
  fi
  sigs=$(echo "$out" | grep -o "signature=[^ ]*" | sort -u | head -4 | sed 's/signature=//' | tr '\n' ' ')
  echo "$id $prop rc=$rc $sigs"
  echo "| $id | $prop | $rc | $sigs |" >> $OUT.tmp
done
mv $OUT.tmp $OUT
