#!/bin/bash
# tools/coverage.sh [scale]: which parts of /repo/src do the monitors' workloads actually execute?
# Builds the harness with -Cinstrument-coverage (nightly, its llvm-tools), runs every property's quick
# workload at a reduced scale in a scratch verif dir, and writes coverage/SUMMARY.txt (per file) and
# coverage/UNCOVERED_FUNCTIONS.txt (functions of /repo/src never entered). Development aid: the
# verdicts never depend on it.
set -u
cd "$(dirname "$0")/.."
V=$PWD
SCALE=${1:-0.1}
BIN=$(dirname $(rustup which --toolchain nightly rustc))/../lib/rustlib/x86_64-unknown-linux-gnu/bin
OUT=$V/run/cov; rm -rf $OUT; mkdir -p $OUT/prof $OUT/vd $V/coverage
cp known_findings.json $OUT/vd/
( cd harness && LLVM_PROFILE_FILE="$OUT/prof/build-%p-%m.profraw" CARGO_NET_OFFLINE=true RUSTFLAGS="-Cinstrument-coverage" cargo +nightly build --offline --profile checked --target-dir target/cov 2>&1 | tail -2 )
T=harness/target/cov/checked/tuverif
for p in $(seq -w 1 20); do
  LLVM_PROFILE_FILE="$OUT/prof/C$p-%p-%m.profraw" TUVERIF_DIR=$OUT/vd TUVERIF_SCALE=$SCALE TUVERIF_NO_EXTRA=1 TUVERIF_HANG_FACTOR=10 \
    $T supervise C$p --tier quick --seed ${VERIF_SEED:-0} | tail -1 | cut -c1-160
done
$BIN/llvm-profdata merge -sparse $OUT/prof/*.profraw -o $OUT/all.profdata
$BIN/llvm-cov report $T -instr-profile=$OUT/all.profdata --ignore-filename-regex='(/root/|/rustc/|verif/harness)' 2>/dev/null > coverage/SUMMARY.txt
$BIN/llvm-cov export $T -instr-profile=$OUT/all.profdata --ignore-filename-regex='(/root/|/rustc/|verif/harness)' -format=text 2>/dev/null > $OUT/export.json
python3 - $OUT/export.json > coverage/UNCOVERED_FUNCTIONS.txt <<'PY'
import json,sys,subprocess,collections
d=json.load(open(sys.argv[1]))
fn=collections.defaultdict(lambda:[0,None])
for f in d['data'][0]['functions']:
    files=[x for x in f['filenames'] if x.startswith('/repo/src')]
    if not files: continue
    name=f['name']
    key=(files[0], f['regions'][0][0] if f['regions'] else 0)
    fn[key][0]+=f['count']
    fn[key][1]=name
try:
    import subprocess
    dem=lambda n: subprocess.run(['rustfilt'],input=n,capture_output=True,text=True).stdout.strip() or n
except Exception:
    dem=lambda n:n
rows=sorted((k[0],k[1],v[1]) for k,v in fn.items() if v[0]==0)
print(f"# functions of /repo/src never entered by the quick workloads ({len(rows)} of {len(fn)} instantiated source functions)")
for f,l,n in rows:
    print(f"{f}:{l}  {n}")
PY
head -40 coverage/SUMMARY.txt
