//! Seeded generators shared by the property monitors.
use crate::core::Rng;
use rand::seq::IndexedRandom;
use rand::Rng as _;
use unicode_segmentation::UnicodeSegmentation;

pub const ASCII_LETTERS: &[&str] = &[
    "a", "b", "c", "d", "e", "t", "h", "x", "A", "B", "Z", "0", "1", "9",
];
pub const ASCII_PUNCT: &[&str] = &[".", ",", "-", "_", "!", "?", "(", ")", "<", ">", "\"", "'", "/"];
/// every Unicode White_Space code point
pub const WHITESPACE: &[&str] = &[
    " ", "\t", "\n", "\u{b}", "\u{c}", "\r", "\u{85}", "\u{a0}", "\u{1680}", "\u{2000}",
    "\u{2001}", "\u{2002}", "\u{2003}", "\u{2004}", "\u{2005}", "\u{2006}", "\u{2007}",
    "\u{2008}", "\u{2009}", "\u{200a}", "\u{2028}", "\u{2029}", "\u{202f}", "\u{205f}",
    "\u{3000}",
];
/// look like spaces but are not White_Space
pub const ZERO_WIDTH: &[&str] = &["\u{200b}", "\u{2060}", "\u{feff}", "\u{180e}"];
pub const MULTIBYTE: &[&str] = &[
    "ä", "ß", "é", "Ж", "д", "ह", "न", "語", "日", "𝒳", "😀", "İ", "ǵ", "ﬁ", "Ǆ", "ñ",
];
pub const COMBINING: &[&str] = &["\u{301}", "\u{308}", "\u{94d}", "\u{200d}", "\u{fe0f}"];
/// multi code point grapheme clusters (no whitespace inside)
pub const CLUSTERS: &[&str] = &[
    "e\u{301}",
    "a\u{308}",
    "स\u{94d}ते",
    "👨\u{200d}👩\u{200d}👧",
    "👍🏽",
    "🇩🇪",
    "\r\n",
    "각",
    "ᄀ\u{1161}\u{11a8}",
    "❤\u{fe0f}",
    "g\u{301}",
];
pub const SPECIAL_LIKE: &[&str] = &[
    "<pad>", "<unk>", "<bos>", "<eos>", "<pad", "pad>", "<<pad>>", "<PAD>", "<pad><pad>", "<p",
    "<extra_token_0>", "<mask>", "< pad>", "<eos", "unk>",
];

fn pick<'a>(rng: &mut Rng, pool: &[&'a str]) -> &'a str {
    pool.choose(rng).copied().unwrap_or("")
}

thread_local! {
    static SCALE: std::cell::Cell<usize> = const { std::cell::Cell::new(1) };
}

/// Size multiplier of the current case: 1 everywhere except in the `large` lanes, where
/// `core::gen_case` sets it per case (10, 50 or 250) so that every length drawn through the helpers of
/// this module (and through `sc`) is that many times bigger.
pub fn set_scale(k: usize) {
    SCALE.with(|s| s.set(k.max(1)));
}
pub fn scale() -> usize {
    SCALE.with(|s| s.get())
}
/// `n` times the size multiplier of the current case
pub fn sc(n: usize) -> usize {
    n.saturating_mul(scale())
}

/// run `f` with the size multiplier replaced by `k`
pub fn with_scale<T>(k: usize, f: impl FnOnce() -> T) -> T {
    let old = scale();
    set_scale(k);
    let r = f();
    set_scale(old);
    r
}

/// geometric-ish length in [0, max] (both scaled in the `large` lanes)
pub fn len_geo(rng: &mut Rng, mean: f64, max: usize) -> usize {
    let (mean, max) = (mean * scale() as f64, sc(max));
    let p = 1.0 / (mean + 1.0);
    let mut n = 0;
    while n < max && rng.random::<f64>() > p {
        n += 1;
    }
    n
}

#[derive(Clone, Copy, Debug, PartialEq, Eq)]
pub enum Flavor {
    /// anything goes
    Wild,
    /// mostly ascii letters and spaces with some multi-byte letters
    Texty,
    /// 2-4 symbols incl. a space and one multi-byte letter: collisions are dense
    Tiny,
}

/// A fixed sample of the whole code space (the pools above are a few dozen hand-picked code
/// points; anything keyed on another script, plane or property would never be generated): ~50
/// code points from each of a list of blocks (Hangul syllables and jamo, Thai, Arabic, Devanagari,
/// emoji, variation selectors, tags, regional indicators, full-width forms, combining marks,
/// compatibility and presentation forms ...), 1500 uniform over U+0080..U+10FFFF (mostly
/// unassigned, all valid scalar values), and encoding / case-mapping / NFKC boundary cases.
/// White_Space code points are left out (WHITESPACE has all of them). Built once from a fixed
/// seed, so cases replay.
pub fn scalars() -> &'static [String] {
    use rand::SeedableRng;
    static T: std::sync::OnceLock<Vec<String>> = std::sync::OnceLock::new();
    T.get_or_init(|| {
        // development aid: measure what the hand-picked pools alone would catch
        if std::env::var("TUVERIF_NO_SCALARS").is_ok() {
            return MULTIBYTE.iter().map(|s| s.to_string()).collect();
        }
        let mut rng = Rng::seed_from_u64(0x5ca1_a125);
        let mut v: Vec<String> = vec![];
        let mut push = |x: u32| {
            if let Some(c) = char::from_u32(x) {
                if !c.is_whitespace() {
                    v.push(c.to_string());
                }
            }
        };
        let blocks: &[(u32, u32)] = &[
            (0x00a1, 0x024f),   // Latin-1 .. Latin Extended-B
            (0x0300, 0x036f),   // combining diacritical marks
            (0x0370, 0x03ff),   // Greek
            (0x0400, 0x04ff),   // Cyrillic
            (0x0590, 0x05ff),   // Hebrew
            (0x0600, 0x06ff),   // Arabic
            (0x0900, 0x097f),   // Devanagari
            (0x0e00, 0x0e7f),   // Thai
            (0x1100, 0x11ff),   // Hangul jamo
            (0x1e00, 0x1eff),   // Latin Extended Additional
            (0x2000, 0x206f),   // general punctuation (format characters, joiners)
            (0x20d0, 0x20ff),   // combining marks for symbols
            (0x2460, 0x24ff),   // enclosed alphanumerics
            (0x3040, 0x30ff),   // Hiragana, Katakana
            (0x3200, 0x33ff),   // enclosed CJK, CJK compatibility
            (0x4e00, 0x9fff),   // CJK unified ideographs
            (0xac00, 0xd7a3),   // Hangul syllables
            (0xf900, 0xfaff),   // CJK compatibility ideographs
            (0xfb00, 0xfdff),   // alphabetic / Arabic presentation forms
            (0xfe00, 0xfe0f),   // variation selectors
            (0xfe20, 0xfe6f),   // combining half marks, small forms
            (0xff00, 0xffef),   // half- and full-width forms
            (0x1d400, 0x1d7ff), // mathematical alphanumerics
            (0x1f1e6, 0x1f1ff), // regional indicators
            (0x1f300, 0x1faff), // emoji
            (0x1f3fb, 0x1f3ff), // emoji modifiers
            (0xe0020, 0xe007f), // tags
            (0xe0100, 0xe01ef), // variation selectors supplement
        ];
        for (lo, hi) in blocks {
            for _ in 0..48 {
                push(rng.random_range(*lo..=*hi));
            }
        }
        for _ in 0..1500 {
            push(rng.random_range(0x80..=0x10ffffu32));
        }
        for x in [
            0x7f, 0x80, 0x7ff, 0x800, 0xffff, 0x10000, 0x10ffff, 0xd7ff, 0xe000, 0xfffd, 0xfffe,
            // case mappings that change the length, NFKC expansions
            0xdf, 0x1e9e, 0x130, 0x131, 0x149, 0x1f0, 0x390, 0x587, 0x1e96, 0xfb03, 0xfb06, 0xfdfa,
            0x3300, 0x2126, 0x212b, 0x1f88, 0x2160, 0x33a7, 0xbd, 0xb5, 0x17f, 0x345, 0x3c2,
            // soft hyphen, Mongolian vowel separator, joiners, directional marks, BOM
            0xad, 0x180e, 0x200b, 0x200c, 0x200d, 0x200e, 0x2060, 0x2066, 0xfeff,
            // bidi embedding / override controls (between the White_Space code points U+2028/9 and U+202F)
            0x202a, 0x202b, 0x202c, 0x202d, 0x202e,
            // Prepend characters
            0x600, 0x605, 0x6dd, 0x70f, 0x8e2, 0xd4e, 0x110bd, 0x111c2,
        ] {
            push(x);
        }
        // C0 controls that are not White_Space (NUL .. BS, SO .. US: the information separators
        // U+001C-001F count as whitespace in other languages' predicates), DEL, C1 controls
        for x in (0x00..=0x08).chain(0x0e..=0x1f).chain([0x7f, 0x80, 0x84, 0x86, 0x9f]) {
            push(x);
            push(x);
        }
        v
    })
}

/// one random "character" (may be a multi code point sequence)
pub fn any_char(rng: &mut Rng, with_whitespace: bool, with_special: bool) -> &'static str {
    let r = rng.random_range(0..100);
    match r {
        0..=34 => pick(rng, ASCII_LETTERS),
        35..=44 => pick(rng, ASCII_PUNCT),
        45..=59 => {
            if with_whitespace {
                if rng.random_range(0..3) == 0 {
                    pick(rng, WHITESPACE)
                } else {
                    " "
                }
            } else {
                pick(rng, ASCII_LETTERS)
            }
        }
        60..=74 => {
            if rng.random_range(0..3) == 0 {
                let t = scalars();
                t[rng.random_range(0..t.len())].as_str()
            } else {
                pick(rng, MULTIBYTE)
            }
        }
        75..=82 => pick(rng, CLUSTERS),
        83..=88 => pick(rng, COMBINING),
        89..=92 => pick(rng, ZERO_WIDTH),
        _ => {
            if with_special {
                pick(rng, SPECIAL_LIKE)
            } else {
                pick(rng, MULTIBYTE)
            }
        }
    }
}

pub fn ustring(rng: &mut Rng, flavor: Flavor, max_chars: usize) -> String {
    let mut s = String::new();
    match flavor {
        Flavor::Wild => {
            let n = len_geo(rng, 10.0, max_chars);
            for _ in 0..n {
                s.push_str(any_char(rng, true, true));
            }
        }
        Flavor::Texty => {
            let n = len_geo(rng, 14.0, max_chars);
            for _ in 0..n {
                let r = rng.random_range(0..100);
                s.push_str(match r {
                    0..=59 => pick(rng, ASCII_LETTERS),
                    60..=77 => " ",
                    78..=87 => pick(rng, MULTIBYTE),
                    88..=92 => pick(rng, ASCII_PUNCT),
                    93..=95 => pick(rng, CLUSTERS),
                    _ => pick(rng, WHITESPACE),
                });
            }
        }
        Flavor::Tiny => {
            let alpha = tiny_alphabet(rng);
            let n = len_geo(rng, 8.0, max_chars);
            for _ in 0..n {
                s.push_str(alpha.choose(rng).copied().unwrap_or("a"));
            }
        }
    }
    s
}

pub fn tiny_alphabet(rng: &mut Rng) -> Vec<&'static str> {
    let mut a: Vec<&'static str> = vec!["a", "b", " "];
    if rng.random_bool(0.6) {
        a.push(pick(rng, MULTIBYTE));
    }
    if rng.random_bool(0.3) {
        a.push(pick(rng, CLUSTERS));
    }
    if rng.random_bool(0.3) {
        a.push("c");
    }
    a
}

pub fn flavor(rng: &mut Rng) -> Flavor {
    match rng.random_range(0..10) {
        0..=3 => Flavor::Wild,
        4..=6 => Flavor::Texty,
        _ => Flavor::Tiny,
    }
}

/// true if some extended grapheme cluster of `s` mixes whitespace and non-whitespace code points
pub fn has_mixed_cluster(s: &str) -> bool {
    s.graphemes(true).any(|g| {
        let ws = g.chars().filter(|c| c.is_whitespace()).count();
        ws > 0 && ws < g.chars().count()
    })
}

/// a word: no whitespace code points, non-empty
pub fn word(rng: &mut Rng, max_chars: usize) -> String {
    let n = 1 + len_geo(rng, 3.0, max_chars.saturating_sub(1));
    let mut s = String::new();
    for _ in 0..n {
        let c = any_char(rng, false, false);
        if c.chars().any(|c| c.is_whitespace()) {
            s.push('x');
        } else {
            s.push_str(c);
        }
    }
    s
}

/// whitespace-clean text: words joined by single U+0020, no leading/trailing whitespace;
/// in grapheme mode additionally no cluster mixes whitespace and non-whitespace
pub fn clean_text(rng: &mut Rng, max_words: usize, graphemes: bool) -> String {
    // `large` lanes: many words of ordinary length or few very long words, not both
    let k = scale();
    let (nscale, wscale) = if k == 1 {
        (1, 1)
    } else if rng.random_bool(0.7) {
        (k, 1)
    } else {
        (1, k)
    };
    let n = with_scale(nscale, || len_geo(rng, 4.0, max_words));
    let mut words: Vec<String> = with_scale(wscale, || (0..n).map(|_| word(rng, 8)).collect());
    if graphemes {
        // a word that starts with a combining mark / ZWJ / etc. would form a cluster with the
        // preceding space: prefix such words with a letter
        for w in words.iter_mut() {
            let probe = format!("a {w} a");
            if has_mixed_cluster(&probe) {
                *w = format!("x{w}x");
            }
        }
    }
    let s = words.join(" ");
    if graphemes && has_mixed_cluster(&s) {
        // give up on exotic words
        return words
            .iter()
            .map(|w| w.chars().filter(|c| c.is_alphanumeric()).collect::<String>())
            .filter(|w| !w.is_empty())
            .collect::<Vec<_>>()
            .join(" ");
    }
    s
}

/// plain words over a small ascii alphabet (for metrics and LCS workloads)
pub fn ascii_word(rng: &mut Rng, alphabet: &[char], max_len: usize) -> String {
    let n = rng.random_range(1..=sc(max_len.max(1)));
    (0..n)
        .map(|_| *alphabet.choose(rng).unwrap_or(&'a'))
        .collect()
}

pub fn chars_of(s: &str, graphemes: bool) -> Vec<&str> {
    if graphemes {
        s.graphemes(true).collect()
    } else {
        let mut v = vec![];
        let mut it = s.char_indices().peekable();
        while let Some((i, c)) = it.next() {
            v.push(&s[i..i + c.len_utf8()]);
        }
        v
    }
}

pub fn is_ws(c: &str) -> bool {
    c.chars().all(char::is_whitespace)
}
