//! Controller for the schedule points that `--features verif` adds to the Pipe worker loop and
//! the Buffered producer (text_utils::verif::point), plus harness-side points of the consumer.
//!
//! Soundness principle: the controller only ever *delays* a thread at a schedule point. A delay at
//! a point is possible in a real execution, and everything between two points runs on the real
//! std Mutex / AtomicUsize / sync_channel, so every behaviour that is observed is a behaviour of
//! the real code. Verdicts about blocking are taken from actual futility, not from a model:
//! a participant is *futile* in the current state if it was given a step and either came back to
//! the same spin point or went to sleep inside a real blocking operation (seen in
//! /proc/self/task/<tid>/stat). When every live participant is futile and no one is running the
//! state can never change again: deadlock / livelock. The shadow state (channel occupancy, turn
//! counter) is only used to *prefer* steps that are predicted to make progress.
use crate::core::Rng;
use rand::Rng as _;
use rand::SeedableRng;
use std::sync::atomic::{AtomicBool, AtomicU64, AtomicUsize, Ordering};
use std::sync::{Arc, Condvar, Mutex, OnceLock};
use std::time::{Duration, Instant};
use text_utils::verif::{self, Event, Site};

#[derive(Clone, Copy, Debug, PartialEq, Eq, Hash)]
pub enum Pt {
    Hook(Site),
    ConsBeforeRecv,
    ConsAfterRecvSome,
    ConsAfterRecvNone,
    ConsBeforeDrop,
    ConsAfterDrop,
}

impl Pt {
    pub fn code(&self) -> u8 {
        match self {
            Pt::Hook(s) => match s {
                Site::PipeBeforeTake => 1,
                Site::PipeAfterTake => 2,
                Site::PipeExhausted => 3,
                Site::PipeAfterCompute => 4,
                Site::PipeSpin => 5,
                Site::PipeBeforeSend => 6,
                Site::PipeAfterSendOk => 7,
                Site::PipeAfterSendErr => 8,
                Site::PipeAfterAdvance => 9,
                Site::PipeExit => 10,
                Site::BufBeforePull => 11,
                Site::BufBeforeSend => 12,
                Site::BufAfterSendOk => 13,
                Site::BufAfterSendErr => 14,
                Site::BufExit => 15,
            },
            Pt::ConsBeforeRecv => 20,
            Pt::ConsAfterRecvSome => 21,
            Pt::ConsAfterRecvNone => 22,
            Pt::ConsBeforeDrop => 23,
            Pt::ConsAfterDrop => 24,
        }
    }
    fn is_exit(&self) -> bool {
        matches!(
            self,
            Pt::Hook(Site::PipeExhausted) | Pt::Hook(Site::PipeExit) | Pt::Hook(Site::BufExit)
        )
    }
}

#[derive(Clone, Copy, Debug, PartialEq, Eq)]
pub enum Mode {
    /// callback does nothing
    Off,
    /// threads park at every point until the controller grants them
    Controlled,
    /// threads are delayed by seeded random amounts at every point
    Chaos,
}

#[derive(Clone, Debug, PartialEq, Eq, serde::Serialize, serde::Deserialize)]
pub enum Strategy {
    Random,
    /// PCT-style: random priorities, `d` priority change points
    Pct(u8),
    ConsumerLast,
    ConsumerFirst,
    /// participant index that only runs when nothing else can
    Starve(u8),
    /// random walk in which some steps release two participants at once, so that they really
    /// run in parallel between their points (sub-point windows; not reproducible step by step)
    Burst,
    /// replay a recorded grant sequence (participant indices)
    Replay(Vec<u8>),
}

#[derive(Clone, Debug, Default)]
pub struct PartState {
    pub parked: Option<(Pt, usize)>,
    pub granted: bool,
    pub exited: bool,
    pub tid: Option<u32>,
    pub events: u64,
    pub last: Option<(Pt, usize)>,
    /// sleeping inside a real blocking operation (not at a point)
    pub blocked: bool,
    pub futile: bool,
    pub sleep_polls: u32,
    pub in_delay: bool,
    pub seen: bool,
    /// left through an exit point: the thread is about to return and drop its channel ends, which
    /// is only certain once the OS thread is gone
    pub terminating: bool,
}

impl PartState {
    /// an exited participant whose thread has not terminated yet can still change the state
    /// (dropping a sender / receiver / the upstream iterator)
    pub fn still_terminating(&self) -> bool {
        self.terminating && self.tid.map(|t| thread_state(t).is_some()).unwrap_or(false)
    }
}

#[derive(Clone, Debug, Default)]
pub struct Shadow {
    pub occupancy: i64,
    pub capacity: i64,
    pub send_next: usize,
    pub live_senders: usize,
    pub rx_alive: bool,
}

pub struct St {
    pub mode: Mode,
    pub pipe_inst: usize,
    pub buf_inst: usize,
    pub nworkers: usize,
    pub parts: Vec<PartState>,
    pub trace: Vec<(u8, u8)>,
    pub events: u64,
    pub nonspin_events: u64,
    pub shadow: Shadow,
    pub chaos_seed: u64,
    pub chaos_level: u8,
    pub stop: bool,
    pub mispredictions: u64,
    /// (pulled - consumed) style monitors can hang their own counters here
    pub log: Vec<(u8, u8, usize)>,
    pub keep_log: bool,
    /// incremented by reset / release_all: threads parked in an older epoch just leave
    pub epoch: u64,
}

pub const MAX_PARTS: usize = 300;

pub struct Sched {
    pub st: Mutex<St>,
    pub cv: Condvar,
    pub total_events: AtomicU64,
    pub installed: AtomicBool,
    /// lock-free mirror used by the spin fast path (free running modes)
    pub controlled_a: AtomicBool,
    pub pipe_inst_a: AtomicUsize,
    pub nworkers_a: AtomicUsize,
    pub chaos_level_a: AtomicUsize,
    pub spin_events: Vec<AtomicU64>,
    pub spin_idx: Vec<AtomicUsize>,
    /// delay injection for every instance (no participant bookkeeping): level 0 = off
    pub chaos_all_level: AtomicUsize,
    pub chaos_all_seed: AtomicU64,
}

thread_local! {
    static EVENT_NO: std::cell::Cell<u64> = const { std::cell::Cell::new(0) };
}

pub const CONSUMER: usize = 0;

static SCHED: OnceLock<Arc<Sched>> = OnceLock::new();

pub fn sched() -> Arc<Sched> {
    SCHED
        .get_or_init(|| {
            Arc::new(Sched {
                st: Mutex::new(St {
                    mode: Mode::Off,
                    pipe_inst: usize::MAX,
                    buf_inst: usize::MAX,
                    nworkers: 0,
                    parts: vec![],
                    trace: vec![],
                    events: 0,
                    nonspin_events: 0,
                    shadow: Shadow::default(),
                    chaos_seed: 0,
                    chaos_level: 0,
                    stop: false,
                    mispredictions: 0,
                    log: vec![],
                    keep_log: false,
                    epoch: 0,
                }),
                cv: Condvar::new(),
                total_events: AtomicU64::new(0),
                installed: AtomicBool::new(false),
                controlled_a: AtomicBool::new(false),
                pipe_inst_a: AtomicUsize::new(usize::MAX),
                nworkers_a: AtomicUsize::new(0),
                chaos_level_a: AtomicUsize::new(0),
                spin_events: (0..MAX_PARTS).map(|_| AtomicU64::new(0)).collect(),
                spin_idx: (0..MAX_PARTS).map(|_| AtomicUsize::new(usize::MAX)).collect(),
                chaos_all_level: AtomicUsize::new(0),
                chaos_all_seed: AtomicU64::new(0),
            })
        })
        .clone()
}

fn my_tid() -> Option<u32> {
    let l = std::fs::read_link("/proc/thread-self").ok()?;
    l.file_name()?.to_str()?.parse().ok()
}

/// ids of all OS threads of this process
pub fn all_tids() -> Vec<u32> {
    std::fs::read_dir("/proc/self/task")
        .map(|d| {
            d.filter_map(|e| e.ok()?.file_name().to_str()?.parse().ok())
                .collect()
        })
        .unwrap_or_default()
}

/// OS scheduling state of a thread of this process: 'R' running/runnable, 'S' sleeping, ...
pub fn thread_state(tid: u32) -> Option<char> {
    let s = std::fs::read_to_string(format!("/proc/self/task/{tid}/stat")).ok()?;
    let rest = &s[s.rfind(')')? + 2..];
    rest.chars().next()
}

fn busy_wait(d: Duration) {
    let t = Instant::now();
    while t.elapsed() < d {
        std::hint::spin_loop();
    }
}

impl Sched {
    fn lock(&self) -> std::sync::MutexGuard<'_, St> {
        self.st.lock().unwrap_or_else(|e| e.into_inner())
    }

    /// install the global callback once per process
    pub fn ensure_installed(self: &Arc<Self>) {
        if self.installed.swap(true, Ordering::SeqCst) {
            return;
        }
        let me = self.clone();
        verif::install(Some(Arc::new(move |ev: Event| me.on_event(ev))));
        // counting threads of train_bpe / Dictionary::create: seeded delay injection only
        let me = self.clone();
        verif::install_count(Some(Arc::new(
            move |site: verif::CountSite, instance: usize, thread: usize| {
                let all = me.chaos_all_level.load(Ordering::Relaxed) as u64;
                if all == 0 {
                    return;
                }
                let n = EVENT_NO.with(|c| {
                    let v = c.get();
                    c.set(v + 1);
                    v
                });
                let seed = me.chaos_all_seed.load(Ordering::Relaxed);
                let h = crate::core::hash64(&(seed, instance, thread, site as u8, n));
                let r = h % 1000;
                if r < 60 * all {
                    std::thread::yield_now();
                } else if r < 100 * all {
                    busy_wait(Duration::from_micros(1 + (h >> 10) % 80));
                } else if r < 115 * all {
                    std::thread::sleep(Duration::from_micros(50 + (h >> 10) % 1200));
                }
            },
        )));
    }

    /// prepare for a new case. `next_instance` is the id the first Pipe/Buffered created from now
    /// on will get.
    pub fn reset(&self, mode: Mode, nworkers: usize, with_buffer: bool, capacity: usize) -> usize {
        let base = verif::next_id();
        let mut st = self.lock();
        st.epoch += 1;
        self.cv.notify_all();
        st.mode = mode;
        st.nworkers = nworkers;
        st.pipe_inst = if nworkers > 0 { base + 1 } else { usize::MAX };
        st.buf_inst = if with_buffer {
            base + 1 + usize::from(nworkers > 0)
        } else {
            usize::MAX
        };
        st.parts = vec![PartState::default(); 1 + nworkers + usize::from(with_buffer)];
        self.controlled_a.store(mode == Mode::Controlled, Ordering::SeqCst);
        self.pipe_inst_a.store(st.pipe_inst, Ordering::SeqCst);
        self.nworkers_a.store(nworkers, Ordering::SeqCst);
        self.chaos_level_a.store(0, Ordering::SeqCst);
        for i in 0..MAX_PARTS.min(2 + nworkers) {
            self.spin_events[i].store(0, Ordering::SeqCst);
            self.spin_idx[i].store(usize::MAX, Ordering::SeqCst);
        }
        st.trace.clear();
        st.log.clear();
        st.events = 0;
        st.nonspin_events = 0;
        st.mispredictions = 0;
        st.stop = false;
        st.shadow = Shadow {
            occupancy: 0,
            capacity: capacity as i64,
            send_next: 0,
            live_senders: nworkers,
            rx_alive: true,
        };
        base
    }

    pub fn set_chaos(&self, seed: u64, level: u8) {
        let mut st = self.lock();
        st.chaos_seed = seed;
        st.chaos_level = level;
        self.chaos_level_a.store(level as usize, Ordering::SeqCst);
    }

    /// release every parked thread and stop controlling (used at the end of a case and on abort)
    pub fn release_all(&self) {
        let mut st = self.lock();
        st.epoch += 1;
        st.mode = Mode::Off;
        st.stop = true;
        self.controlled_a.store(false, Ordering::SeqCst);
        self.pipe_inst_a.store(usize::MAX, Ordering::SeqCst);
        st.pipe_inst = usize::MAX;
        st.buf_inst = usize::MAX;
        self.cv.notify_all();
    }

    fn part_of(st: &St, ev: &Event) -> Option<usize> {
        if ev.instance == st.pipe_inst && ev.thread < st.nworkers {
            Some(1 + ev.thread)
        } else if ev.instance == st.buf_inst {
            Some(1 + st.nworkers)
        } else {
            None
        }
    }

    /// seeded delays at every schedule point of every Pipe / Buffered instance (used where the
    /// loader is built by the repo itself and the instances are not known to the harness)
    pub fn set_chaos_all(&self, seed: u64, level: u8) {
        self.chaos_all_seed.store(seed, Ordering::SeqCst);
        self.chaos_all_level.store(level as usize, Ordering::SeqCst);
    }

    fn on_event(&self, ev: Event) {
        let all = self.chaos_all_level.load(Ordering::Relaxed) as u64;
        if all > 0 {
            let n = EVENT_NO.with(|c| {
                let v = c.get();
                c.set(v + 1);
                v
            });
            if ev.site == Site::PipeSpin {
                if n % 32 == 0 {
                    std::thread::yield_now();
                }
                return;
            }
            let seed = self.chaos_all_seed.load(Ordering::Relaxed);
            let h = crate::core::hash64(&(seed, ev.instance, ev.thread, ev.idx, ev.site as u8, n));
            let r = h % 1000;
            let narrow = matches!(
                ev.site,
                Site::PipeAfterSendOk | Site::PipeAfterTake | Site::PipeBeforeSend
            );
            let boost = if narrow { 3 } else { 1 };
            if all >= 4 && (h >> 20) % 400 == 0 {
                // level 4: rare long stalls (60-250 ms) so that anything with a time budget in the
                // loader (a fill loop that gives up, a receive with a timeout) behaves differently
                std::thread::sleep(Duration::from_millis(60 + (h >> 30) % 190));
            } else if r < 40 * all * boost {
                std::thread::yield_now();
            } else if r < 70 * all * boost {
                busy_wait(Duration::from_micros(1 + (h >> 10) % 60));
            } else if r < 80 * all * boost {
                std::thread::sleep(Duration::from_micros(50 + (h >> 10) % 800));
            }
            return;
        }
        if ev.site == Site::PipeSpin && !self.controlled_a.load(Ordering::Relaxed) {
            // free running: spin events only feed lock-free counters (the state mutex must not
            // become the bottleneck that the spinners fight over)
            if ev.instance == self.pipe_inst_a.load(Ordering::Relaxed)
                && ev.thread < self.nworkers_a.load(Ordering::Relaxed)
                && 1 + ev.thread < MAX_PARTS
            {
                let p = 1 + ev.thread;
                let n = self.spin_events[p].fetch_add(1, Ordering::Relaxed);
                self.spin_idx[p].store(ev.idx, Ordering::Relaxed);
                let level = self.chaos_level_a.load(Ordering::Relaxed) as u64;
                if level > 0 && n % (64 / level.min(4)) == 0 {
                    std::thread::yield_now();
                }
            }
            return;
        }
        self.total_events.fetch_add(1, Ordering::Relaxed);
        let pt = Pt::Hook(ev.site);
        let st = self.lock();
        let Some(p) = Self::part_of(&st, &ev) else {
            return;
        };
        self.at_point(st, p, pt, ev.idx);
    }

    /// harness-side schedule point of the consumer
    pub fn consumer_point(&self, pt: Pt, idx: usize) {
        let st = self.lock();
        if st.mode == Mode::Off || st.parts.is_empty() {
            return;
        }
        self.at_point(st, CONSUMER, pt, idx);
    }

    fn apply_shadow(st: &mut St, p: usize, pt: Pt, idx: usize) {
        match pt {
            Pt::Hook(Site::PipeAfterSendOk) | Pt::Hook(Site::BufAfterSendOk) => {
                st.shadow.occupancy += 1
            }
            Pt::Hook(Site::PipeAfterAdvance) => st.shadow.send_next = idx.wrapping_add(1),
            Pt::ConsAfterRecvSome => st.shadow.occupancy -= 1,
            Pt::ConsAfterDrop => st.shadow.rx_alive = false,
            _ => {}
        }
        let _ = p;
    }

    fn at_point(&self, mut st: std::sync::MutexGuard<'_, St>, p: usize, pt: Pt, idx: usize) {
        if p >= st.parts.len() {
            return;
        }
        st.events += 1;
        let is_spin = pt == Pt::Hook(Site::PipeSpin);
        if !is_spin {
            st.nonspin_events += 1;
        }
        if st.parts[p].tid.is_none() {
            st.parts[p].tid = my_tid();
        }
        st.parts[p].seen = true;
        st.parts[p].events += 1;
        let same_as_before = st.parts[p].last == Some((pt, idx));
        st.parts[p].last = Some((pt, idx));
        if st.keep_log && (!is_spin || !same_as_before) {
            let code = pt.code();
            st.log.push((p as u8, code, idx));
        }
        Self::apply_shadow(&mut st, p, pt, idx);
        match st.mode {
            Mode::Off => {
                if pt.is_exit() {
                    st.parts[p].exited = true;
                    st.parts[p].terminating = true;
                }
            }
            Mode::Chaos => {
                if pt.is_exit() {
                    st.parts[p].exited = true;
                    st.parts[p].terminating = true;
                }
                let seed = st.chaos_seed;
                let level = st.chaos_level as u64;
                let n = st.parts[p].events;
                st.parts[p].in_delay = true;
                drop(st);
                // per (participant, event number) delay decision, independent of arrival order
                let mut rng = Rng::seed_from_u64(crate::core::hash64(&(seed, p, n)));
                let narrow = matches!(
                    pt,
                    Pt::Hook(Site::PipeAfterSendOk)
                        | Pt::Hook(Site::PipeAfterTake)
                        | Pt::Hook(Site::PipeBeforeSend)
                        | Pt::Hook(Site::PipeAfterSendErr)
                        | Pt::ConsAfterRecvSome
                );
                let r = rng.random_range(0..1000u64);
                let boost = if narrow { 3 } else { 1 };
                if is_spin {
                    if r < 20 * level {
                        std::thread::yield_now();
                    }
                } else if r < 40 * level * boost {
                    std::thread::yield_now();
                } else if r < 70 * level * boost {
                    busy_wait(Duration::from_micros(rng.random_range(1..60)));
                } else if r < 80 * level * boost {
                    std::thread::sleep(Duration::from_micros(rng.random_range(50..1500)));
                }
                let mut st = self.lock();
                if p < st.parts.len() {
                    st.parts[p].in_delay = false;
                }
            }
            Mode::Controlled => {
                // a participant that was given up on (never seen for seconds) shows up after all
                if st.parts[p].exited && !pt.is_exit() {
                    st.parts[p].exited = false;
                }
                // a spinner that comes back to the same spin point made no progress
                if is_spin && same_as_before {
                    st.parts[p].futile = true;
                } else {
                    // the state changed: everybody gets a new chance
                    for q in st.parts.iter_mut() {
                        q.futile = false;
                    }
                }
                st.parts[p].blocked = false;
                st.parts[p].sleep_polls = 0;
                st.parts[p].parked = Some((pt, idx));
                let epoch = st.epoch;
                self.cv.notify_all();
                while !st.parts[p].granted && st.mode == Mode::Controlled && !st.stop {
                    st = self.cv.wait(st).unwrap_or_else(|e| e.into_inner());
                    if st.epoch != epoch || p >= st.parts.len() {
                        // the case this thread belonged to is over
                        return;
                    }
                }
                if st.epoch != epoch {
                    return;
                }
                st.parts[p].granted = false;
                st.parts[p].parked = None;
                if pt.is_exit() {
                    st.parts[p].exited = true;
                    st.parts[p].terminating = true;
                    if p >= 1 && p <= st.nworkers {
                        st.shadow.live_senders = st.shadow.live_senders.saturating_sub(1);
                    }
                }
                self.cv.notify_all();
            }
        }
    }

    /// the driver marks a participant (the consumer) as finished
    pub fn mark_exited(&self, p: usize) {
        let mut st = self.lock();
        if p < st.parts.len() {
            st.parts[p].exited = true;
            st.parts[p].seen = true;
        }
        self.cv.notify_all();
    }

    /// something outside the schedule points changed the state (e.g. the consumer dropped the
    /// receiver): everybody gets a new chance
    pub fn clear_futile(&self) {
        let mut st = self.lock();
        for q in st.parts.iter_mut() {
            q.futile = false;
        }
        self.cv.notify_all();
    }

    pub fn snapshot(&self) -> (Vec<PartState>, Shadow, u64, u64) {
        let st = self.lock();
        (st.parts.clone(), st.shadow.clone(), st.events, st.nonspin_events)
    }

    pub fn set_keep_log(&self, keep: bool) {
        self.lock().keep_log = keep;
    }

    pub fn take_log(&self) -> Vec<(u8, u8, usize)> {
        std::mem::take(&mut self.lock().log)
    }

    /// is the step of participant p at (pt, idx) predicted to make progress?
    fn predicted_enabled(st: &St, p: usize, pt: Pt, idx: usize) -> bool {
        let sh = &st.shadow;
        match pt {
            Pt::Hook(Site::PipeSpin) => sh.send_next == idx,
            Pt::Hook(Site::PipeBeforeSend) => sh.occupancy < sh.capacity.max(1) || !sh.rx_alive,
            Pt::Hook(Site::BufBeforeSend) => sh.occupancy < sh.capacity.max(1) || !sh.rx_alive,
            Pt::ConsBeforeRecv => {
                let producers = if st.buf_inst != usize::MAX {
                    usize::from(!st.parts[st.parts.len() - 1].exited)
                } else {
                    sh.live_senders
                };
                let _ = p;
                sh.occupancy > 0 || producers == 0
            }
            _ => true,
        }
    }
}

#[derive(Debug, Clone, PartialEq, Eq)]
pub enum RunEnd {
    /// the driver told the controller that the case is over
    Finished,
    /// every live participant is futile: nothing can ever change again
    Deadlock(String),
    /// a replayed grant sequence could not be followed
    Diverged(String),
    /// harness watchdog (inconclusive, never a violation)
    Watchdog(String),
    /// the driver's abort flag was raised (a monitor already has its verdict)
    Aborted,
}

pub struct ControlResult {
    pub end: RunEnd,
    pub steps: u64,
    pub trace: Vec<(u8, u8)>,
    pub nontrivial_choices: u64,
    pub mispredictions: u64,
    pub blocked_detections: u64,
}

/// Drive the parked participants until `done` says the case is over.
/// Runs on its own thread; `done` is polled under the lock.
pub fn control(
    s: &Sched,
    strategy: &Strategy,
    seed: u64,
    done: &AtomicBool,
    max_steps: u64,
) -> ControlResult {
    static NEVER: AtomicBool = AtomicBool::new(false);
    control_abortable(
        s,
        strategy,
        seed,
        &|| done.load(Ordering::SeqCst),
        &NEVER,
        max_steps,
        30,
    )
}

pub fn control_abortable(
    s: &Sched,
    strategy: &Strategy,
    seed: u64,
    done: &dyn Fn() -> bool,
    abort: &AtomicBool,
    max_steps: u64,
    // number of 10 ms polls for which blocked threads must stay asleep before the all-futile
    // state is reported (30 where it is a verdict, 3 where quiescence is the expected outcome)
    confirm_polls: u32,
) -> ControlResult {
    let mut rng = Rng::seed_from_u64(seed);
    let mut steps = 0u64;
    let mut nontrivial = 0u64;
    let mut blocked_detections = 0u64;
    let t0 = Instant::now();
    let mut prio: Vec<i64> = vec![];
    let mut change_points: Vec<u64> = vec![];
    let mut low = -1i64;
    let mut st = s.lock();
    let np = st.parts.len();
    if let Strategy::Pct(d) = strategy {
        prio = (0..np).map(|_| rng.random_range(0..1_000_000)).collect();
        change_points = (0..*d).map(|_| rng.random_range(0..60)).collect();
    }
    let mut replay_pos = 0usize;
    let end = loop {
        // 1. wait for quiescence: every live participant is parked, blocked or not started yet
        let mut idle_polls = 0u32;
        let mut absent_polls = 0u32;
        loop {
            if done() || abort.load(Ordering::SeqCst) {
                break;
            }
            let mut running = vec![];
            for (i, q) in st.parts.iter().enumerate() {
                if !q.exited && q.parked.is_none() && !q.blocked && q.seen {
                    running.push(i);
                }
            }
            // participants that have not reached their first point yet are waited for as well
            let unseen = st.parts.iter().filter(|q| !q.seen && !q.exited).count();
            if running.is_empty() && unseen == 0 {
                break;
            }
            let (g, _) = s
                .cv
                .wait_timeout(st, Duration::from_millis(1))
                .unwrap_or_else(|e| e.into_inner());
            st = g;
            idle_polls += 1;
            // a granted thread that sleeps outside of any point is inside a real blocking call
            for i in running {
                let q = &mut st.parts[i];
                if q.parked.is_some() || q.exited {
                    continue;
                }
                match q.tid.and_then(thread_state) {
                    Some('S') | Some('D') => q.sleep_polls += 1,
                    Some(_) => q.sleep_polls = 0,
                    None => q.sleep_polls += 1,
                }
                if q.sleep_polls >= 4 {
                    q.blocked = true;
                    q.futile = true;
                    blocked_detections += 1;
                }
            }
            // Every participant announces itself at its first point (workers: before their first
            // ticket; Buffered producer: hook H1b; consumer: its first harness point). A
            // participant that has not been seen yet is normally a thread that has not been
            // scheduled yet (this took > 3 s under ASan on a loaded machine), so there is no
            // timeout here. It is only given up on when it provably does not exist: every OS
            // thread of this process is accounted for (controller + seen participants) on 20
            // consecutive polls, i.e. there is no thread left that could become that participant.
            if unseen > 0 && idle_polls % 5 == 0 {
                let mut known: Vec<u32> = st.parts.iter().filter_map(|q| q.tid).collect();
                if let Some(me) = my_tid() {
                    known.push(me);
                }
                let unknown = all_tids().iter().filter(|t| !known.contains(t)).count();
                if unknown == 0 {
                    absent_polls += 1;
                } else {
                    absent_polls = 0;
                }
                if absent_polls >= 20 {
                    for q in st.parts.iter_mut() {
                        if !q.seen {
                            q.exited = true;
                            q.seen = true;
                        }
                    }
                }
            }
            if t0.elapsed() > Duration::from_secs(120) {
                break;
            }
        }
        if done() {
            break RunEnd::Finished;
        }
        if abort.load(Ordering::SeqCst) {
            break RunEnd::Aborted;
        }
        if t0.elapsed() > Duration::from_secs(120) {
            break RunEnd::Watchdog("controller ran for 120 s".into());
        }
        if steps >= max_steps {
            break RunEnd::Watchdog(format!("more than {max_steps} steps"));
        }
        // 2. candidates
        let cands: Vec<usize> = (0..st.parts.len())
            .filter(|&i| st.parts[i].parked.is_some() && !st.parts[i].exited)
            .collect();
        let live_nonfutile = cands.iter().filter(|&&i| !st.parts[i].futile).count();
        let live = st.parts.iter().filter(|q| !q.exited).count();
        if live == 0 {
            // everybody exited: the driver is about to flag the end of the case
            let (g, _) = s
                .cv
                .wait_timeout(st, Duration::from_millis(1))
                .unwrap_or_else(|e| e.into_inner());
            st = g;
            continue;
        }
        if live_nonfutile == 0 {
            // every live participant is either blocked in a real operation or a spinner that came
            // back to its spin point in this very state. Confirm that blocked ones stay asleep.
            let blocked: Vec<usize> = (0..st.parts.len())
                .filter(|&i| st.parts[i].blocked && !st.parts[i].exited)
                .collect();
            let mut stable = true;
            for _ in 0..confirm_polls {
                let (g, _) = s
                    .cv
                    .wait_timeout(st, Duration::from_millis(10))
                    .unwrap_or_else(|e| e.into_inner());
                st = g;
                if done() {
                    stable = false;
                    break;
                }
                if st.parts.iter().any(|q| q.still_terminating()) {
                    // a thread that left through its exit point has not finished returning yet
                    stable = false;
                }
                for &i in &blocked {
                    let q = &st.parts[i];
                    // a thread whose /proc entry is gone has terminated: it will not move either
                    if q.parked.is_some()
                        || q.exited
                        || !matches!(q.tid.map(thread_state), Some(Some('S')) | Some(Some('D')) | Some(None))
                    {
                        stable = false;
                    }
                }
                if !stable {
                    break;
                }
            }
            if !stable {
                for i in blocked {
                    if st.parts[i].parked.is_some() {
                        st.parts[i].blocked = false;
                    }
                }
                for q in st.parts.iter_mut() {
                    if !q.blocked {
                        q.futile = false;
                    }
                }
                continue;
            }
            let desc: Vec<String> = st
                .parts
                .iter()
                .enumerate()
                .map(|(i, q)| {
                    format!(
                        "p{i}:{}",
                        if q.exited {
                            "exited".to_string()
                        } else if q.blocked {
                            format!("blocked-after-{:?}", q.last)
                        } else {
                            format!("spins-at-{:?}", q.parked)
                        }
                    )
                })
                .collect();
            break RunEnd::Deadlock(format!(
                "no participant can make progress: {} shadow={:?}",
                desc.join(" "),
                st.shadow
            ));
        }
        // 3. choose
        let usable: Vec<usize> = cands
            .iter()
            .copied()
            .filter(|&i| !st.parts[i].futile)
            .collect();
        let enabled: Vec<usize> = usable
            .iter()
            .copied()
            .filter(|&i| {
                let (pt, idx) = st.parts[i].parked.unwrap();
                Sched::predicted_enabled(&st, i, pt, idx)
            })
            .collect();
        let pool: &Vec<usize> = if enabled.is_empty() { &usable } else { &enabled };
        if enabled.is_empty() {
            st.mispredictions += 1;
        }
        let choice = match strategy {
            Strategy::Random | Strategy::Burst => pool[rng.random_range(0..pool.len())],
            Strategy::Pct(_) => {
                if change_points.contains(&steps) {
                    if let Some(&top) = pool.iter().max_by_key(|&&i| prio[i]) {
                        prio[top] = low;
                        low -= 1;
                    }
                }
                *pool.iter().max_by_key(|&&i| prio[i]).unwrap()
            }
            Strategy::ConsumerLast => {
                let w: Vec<usize> = pool.iter().copied().filter(|&i| i != CONSUMER).collect();
                if w.is_empty() {
                    pool[0]
                } else {
                    w[rng.random_range(0..w.len())]
                }
            }
            Strategy::ConsumerFirst => {
                if pool.contains(&CONSUMER) {
                    CONSUMER
                } else {
                    pool[rng.random_range(0..pool.len())]
                }
            }
            Strategy::Starve(k) => {
                let w: Vec<usize> = pool.iter().copied().filter(|&i| i != *k as usize).collect();
                if w.is_empty() {
                    pool[0]
                } else {
                    w[rng.random_range(0..w.len())]
                }
            }
            Strategy::Replay(seq) => {
                if replay_pos >= seq.len() {
                    // recorded sequence exhausted: continue with the lowest participant
                    pool[0]
                } else {
                    let want = (seq[replay_pos] & 0x7f) as usize;
                    replay_pos += 1;
                    if cands.contains(&want) {
                        want
                    } else {
                        break RunEnd::Diverged(format!(
                            "step {steps}: recorded participant {want} is not at a point"
                        ));
                    }
                }
            }
        };
        if pool.len() > 1 && choice != pool[0] {
            nontrivial += 1;
        }
        let (pt, _) = st.parts[choice].parked.unwrap();
        st.trace.push((choice as u8, pt.code()));
        st.parts[choice].granted = true;
        steps += 1;
        if *strategy == Strategy::Burst && usable.len() > 1 && rng.random_range(0..3) == 0 {
            // release a second participant together with the first one
            let others: Vec<usize> = usable.iter().copied().filter(|&i| i != choice).collect();
            let second = others[rng.random_range(0..others.len())];
            let (pt2, _) = st.parts[second].parked.unwrap();
            st.trace.push((second as u8 | 0x80, pt2.code()));
            st.parts[second].granted = true;
            steps += 1;
            nontrivial += 1;
        }
        if let Strategy::Replay(seq) = strategy {
            // a recorded burst step: the next entry carries the 0x80 flag
            if replay_pos < seq.len() && seq[replay_pos] & 0x80 != 0 {
                let second = (seq[replay_pos] & 0x7f) as usize;
                replay_pos += 1;
                if second < st.parts.len() && st.parts[second].parked.is_some() {
                    let (pt2, _) = st.parts[second].parked.unwrap();
                    st.trace.push((second as u8 | 0x80, pt2.code()));
                    st.parts[second].granted = true;
                    steps += 1;
                }
            }
        }
        s.cv.notify_all();
        // wait until the granted participant has left its point
        while st.parts[choice].granted && !st.stop {
            let (g, to) = s
                .cv
                .wait_timeout(st, Duration::from_millis(50))
                .unwrap_or_else(|e| e.into_inner());
            st = g;
            if to.timed_out() && t0.elapsed() > Duration::from_secs(120) {
                break;
            }
        }
    };
    let trace = st.trace.clone();
    let mispredictions = st.mispredictions;
    drop(st);
    ControlResult {
        end,
        steps,
        trace,
        nontrivial_choices: nontrivial,
        mispredictions,
        blocked_detections,
    }
}

/// Free-running deadlock monitor (chaos mode): samples the participants and reports a state in
/// which nobody can ever make progress again. A live participant counts as stuck in a sample if,
/// since the previous sample, it had no event at any schedule point other than the spin point and
/// either (a) its spin counter went up while it kept spinning for the same index (the real code
/// re-read the turn counter and found it unchanged), or (b) it had no spin event either and the OS
/// reports it asleep (or terminated) outside of an injected delay, i.e. inside a real blocking
/// call. A runnable thread that merely was not scheduled is neither. If all live participants are
/// stuck for `samples` consecutive samples nothing can change the turn counter or the channels
/// any more.
pub fn free_running_stuck(s: &Sched, samples: u32, period: Duration) -> Option<String> {
    let mut prev: Vec<(u64, usize, u64)> = vec![];
    let mut ok = 0u32;
    loop {
        std::thread::sleep(period);
        let st = s.lock();
        if st.stop || st.mode == Mode::Off {
            return None;
        }
        let n = st.parts.len();
        let cur: Vec<(u64, usize, u64)> = (0..n)
            .map(|i| {
                (
                    s.spin_events[i.min(MAX_PARTS - 1)].load(Ordering::Relaxed),
                    s.spin_idx[i.min(MAX_PARTS - 1)].load(Ordering::Relaxed),
                    st.parts[i].events,
                )
            })
            .collect();
        let mut all_stuck = prev.len() == n;
        let mut any_live = false;
        if prev.len() == n {
            for (i, q) in st.parts.iter().enumerate() {
                if q.exited {
                    if q.still_terminating() {
                        all_stuck = false;
                    }
                    continue;
                }
                any_live = true;
                let (se, si, ev) = cur[i];
                let (pse, psi, pev) = prev[i];
                let spinning = ev == pev && se > pse && si == psi;
                let asleep = ev == pev
                    && se == pse
                    && !q.in_delay
                    && match q.tid {
                        Some(tid) => matches!(thread_state(tid), Some('S') | Some('D') | None),
                        // never reached a point: cannot be judged
                        None => false,
                    };
                if !(spinning || asleep) {
                    all_stuck = false;
                }
            }
        }
        if all_stuck && any_live {
            ok += 1;
            if ok >= samples {
                let desc: Vec<String> = st
                    .parts
                    .iter()
                    .enumerate()
                    .map(|(i, q)| {
                        if q.exited {
                            format!("p{i}:exited")
                        } else if cur[i].0 > 0 && cur[i].0 != prev[i].0 {
                            format!("p{i}:spinning-for-{}", cur[i].1)
                        } else {
                            format!("p{i}:asleep-after-{:?}", q.last)
                        }
                    })
                    .collect();
                return Some(format!("{} shadow={:?}", desc.join(" "), st.shadow));
            }
        } else {
            ok = 0;
        }
        prev = cur;
    }
}
