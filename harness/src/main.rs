//! tuverif: runtime monitors for ad-freiburg/text-utils.
//!   tuverif supervise <ID> --tier quick|thorough --seed N
//!   tuverif work <ID> ...            (worker process, started by the supervisor)
//!   tuverif replay <ID> <replay.json>
mod core;
mod gen;
mod props;
mod sanitize;
mod sched;
mod supervise;

use crate::core::*;
use std::path::PathBuf;
use std::process::exit;

fn arg_value(args: &[String], name: &str) -> Option<String> {
    args.iter()
        .position(|a| a == name)
        .and_then(|i| args.get(i + 1).cloned())
}

macro_rules! dispatch {
    ($id:expr, $f:ident, $($arg:expr),*) => {
        match $id {
            "C01" => $f::<props::c01::C01>($($arg),*),
            "C02" => $f::<props::c02::C02>($($arg),*),
            "C03" => $f::<props::c03::C03>($($arg),*),
            "C04" => $f::<props::c04::C04>($($arg),*),
            "C05" => $f::<props::c05::C05>($($arg),*),
            "C06" => $f::<props::c06::C06>($($arg),*),
            "C07" => $f::<props::c07::C07>($($arg),*),
            "C08" => $f::<props::c08::C08>($($arg),*),
            "C09" => $f::<props::c09::C09>($($arg),*),
            "C10" => $f::<props::c10::C10>($($arg),*),
            "C11" => $f::<props::c11::C11>($($arg),*),
            "C12" => $f::<props::c12::C12>($($arg),*),
            "C13" => $f::<props::c13::C13>($($arg),*),
            "C14" => $f::<props::c14::C14>($($arg),*),
            "C15" => $f::<props::c15::C15>($($arg),*),
            "C16" => $f::<props::c16::C16>($($arg),*),
            "C17" => $f::<props::c17::C17>($($arg),*),
            "C18" => $f::<props::c18::C18>($($arg),*),
            "C19" => $f::<props::c19::C19>($($arg),*),
            "C20" => $f::<props::c20::C20>($($arg),*),
            other => {
                eprintln!("unknown property {other}");
                exit(2)
            }
        }
    };
}

fn do_work<P: Prop>(args: &[String]) -> i32 {
    let get = |n: &str| arg_value(args, n).unwrap_or_default();
    let a = WorkArgs {
        tier: Tier::parse(&get("--tier")).unwrap_or(Tier::Quick),
        seed: get("--seed").parse().unwrap_or(0),
        lane: get("--lane"),
        shard: get("--shard").parse().unwrap_or(0),
        nshards: get("--nshards").parse().unwrap_or(1),
        cases: get("--cases").parse().unwrap_or(0),
        start: get("--start").parse().unwrap_or(0),
        time_cap_s: get("--time-cap").parse().unwrap_or(60),
        out: PathBuf::from(get("--out")),
        replay_dir: PathBuf::from(get("--replays")),
    };
    match run_worker::<P>(a) {
        Ok(()) => 0,
        Err(e) => {
            eprintln!("worker error: {e}");
            3
        }
    }
}

fn do_describe<P: Prop>(args: &[String]) -> i32 {
    let get = |n: &str| arg_value(args, n).unwrap_or_default();
    let tier = Tier::parse(&get("--tier")).unwrap_or(Tier::Quick);
    let seed: u64 = get("--seed").parse().unwrap_or(0);
    let idx: u64 = get("--idx").parse().unwrap_or(0);
    let lane = get("--lane");
    let cseed = case_seed(seed, P::ID, &lane, idx);
    let case = describe_case::<P>(tier, &lane, cseed);
    println!("{}", serde_json::json!({"case": case, "case_seed": cseed}));
    0
}

fn do_inprocess<P: Prop>(args: &[String]) -> i32 {
    let get = |n: &str| arg_value(args, n).unwrap_or_default();
    run_inprocess::<P>(
        Tier::parse(&get("--tier")).unwrap_or(Tier::Quick),
        get("--seed").parse().unwrap_or(0),
        &get("--lane"),
        get("--shard").parse().unwrap_or(0),
        get("--nshards").parse().unwrap_or(1),
        get("--cases").parse().unwrap_or(1),
        get("--budget-s").parse().ok(),
    )
}

fn do_supervise<P: Prop>(tier: Tier, seed: u64) -> i32 {
    supervise::supervise::<P>(tier, seed, &props::extra_lanes::<P>).exit_code
}

fn do_replay<P: Prop>(path: &str) -> i32 {
    let Ok(s) = std::fs::read_to_string(path) else {
        println!("INCONCLUSIVE property={} reason=cannot read replay file {path}", P::ID);
        return 2;
    };
    let Ok(v) = serde_json::from_str::<serde_json::Value>(&s) else {
        println!("INCONCLUSIVE property={} reason=replay file is not json", P::ID);
        return 2;
    };
    match run_replay::<P>(&v["case"]) {
        Ok((vs, inc)) if vs.is_empty() && !inc.is_empty() => {
            for r in inc {
                println!("INCONCLUSIVE property={} reason={r}", P::ID);
            }
            2
        }
        Ok((vs, _)) if vs.is_empty() => {
            println!("HELD property={} replay={path} (case does not violate)", P::ID);
            0
        }
        Ok((vs, _)) => {
            // recorded findings are reported as such here too
            let known = supervise::load_known_findings();
            let mut new = 0;
            for v in &vs {
                if let Some(k) = known.iter().find(|k| {
                    k.property == P::ID && k.status == "known" && k.signature == v.signature
                }) {
                    println!("KNOWN-FINDING: property={} {} (signature {})", P::ID, k.what, k.signature);
                } else {
                    new += 1;
                }
            }
            if new == 0 {
                println!("HELD property={} replay={path} (only recorded findings)", P::ID);
                return 0;
            }
            println!("VIOLATION property={} replay={path}", P::ID);
            for v in vs {
                println!("  signature={} detail={}", v.signature, v.detail);
            }
            1
        }
        Err(e) => {
            println!("INCONCLUSIVE property={} reason=cannot decode case: {e}", P::ID);
            2
        }
    }
}

fn replay_supervised(id: &str, path: &str) -> i32 {
    let Ok(exe) = std::env::current_exe() else { return 2 };
    let Ok(mut child) = std::process::Command::new(exe)
        .args(["replay-inner", id, path])
        .spawn()
    else {
        return 2;
    };
    let t0 = std::time::Instant::now();
    loop {
        match child.try_wait() {
            Ok(Some(st)) => return st.code().unwrap_or(2),
            Ok(None) => {}
            Err(_) => return 2,
        }
        let cpu = std::fs::read_to_string(format!("/proc/{}/stat", child.id()))
            .ok()
            .and_then(|s| {
                let rest = s[s.rfind(')')? + 2..].to_string();
                let f: Vec<&str> = rest.split_whitespace().collect();
                Some((f.get(11)?.parse::<f64>().ok()? + f.get(12)?.parse::<f64>().ok()?) / 100.0)
            })
            .unwrap_or(0.0);
        // threaded cases spin legitimately, but never for minutes on these tiny replays
        if cpu > 120.0 {
            let _ = child.kill();
            let _ = child.wait();
            println!("VIOLATION property={id} replay={path}");
            println!("  signature=non-termination detail=the replayed case burnt more than 120 CPU seconds without finishing");
            return 1;
        }
        if t0.elapsed() > std::time::Duration::from_secs(1800) {
            let _ = child.kill();
            let _ = child.wait();
            println!("INCONCLUSIVE property={id} reason=replay did not finish within 30 minutes wall clock");
            return 2;
        }
        std::thread::sleep(std::time::Duration::from_millis(50));
    }
}

fn main() {
    let args: Vec<String> = std::env::args().collect();
    if args.len() < 3 {
        eprintln!("usage: tuverif supervise|work|replay <ID> ...");
        exit(2);
    }
    let id = args[2].as_str();
    let code = match args[1].as_str() {
        "work" => dispatch!(id, do_work, &args),
        // print the case (lane, --idx) of a run without executing it
        "describe" => dispatch!(id, do_describe, &args),
        // in-process runner (no worker processes, no files): used under Miri
        "inprocess" => dispatch!(id, do_inprocess, &args),
        "supervise" => {
            let tier = Tier::parse(&arg_value(&args, "--tier").unwrap_or("quick".into()))
                .unwrap_or(Tier::Quick);
            let seed: u64 = arg_value(&args, "--seed")
                .and_then(|s| s.parse().ok())
                .unwrap_or(0);
            dispatch!(id, do_supervise, tier, seed)
        }
        "replay" => {
            // the case runs in a child process so that a case that does not terminate is decided by
            // its CPU time (as in the supervisor) instead of hanging the replay
            let path = args.get(3).cloned().unwrap_or_default();
            replay_supervised(id, &path)
        }
        "replay-inner" => {
            let path = args.get(3).cloned().unwrap_or_default();
            dispatch!(id, do_replay, &path)
        }
        // helper sub-processes of individual properties (child processes for panic / exit tests)
        "child" => props::child_main(id, &args),
        other => {
            eprintln!("unknown command {other}");
            2
        }
    };
    // the per-process scratch directory of this process, if one was created and is empty again
    // (helper children and replays are not reaped by a supervisor that would remove it)
    let _ = std::fs::remove_dir(std::env::temp_dir().join(format!("tuverif-{}", std::process::id())));
    exit(code);
}
