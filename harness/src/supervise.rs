//! Supervisor: launches the shard processes of every lane, enforces the CPU-time
//! (non-termination) and wall-clock (inconclusive) budgets, aggregates what the workers
//! observed, consults known_findings.json, writes the evidence file and decides the verdict.
use crate::core::*;
use serde_json::{json, Value};
use std::collections::{BTreeMap, HashMap, HashSet};
use std::fs;
use std::path::{Path, PathBuf};
use std::process::{Child, Command, Stdio};
use std::time::{Duration, Instant};

pub const VERIF_DIR: &str = "/verif";

pub fn verif_dir() -> PathBuf {
    PathBuf::from(std::env::var("TUVERIF_DIR").unwrap_or_else(|_| VERIF_DIR.to_string()))
}

struct Shard {
    idx: usize,
    child: Option<Child>,
    out: PathBuf,
    last_cur: Option<(u64, u64)>,
    cpu_at_change: f64,
    restarts: usize,
    finished: bool,
}

fn proc_cpu_seconds(pid: u32) -> Option<f64> {
    let s = fs::read_to_string(format!("/proc/{pid}/stat")).ok()?;
    // the command name may contain spaces; fields after the closing parenthesis
    let rest = &s[s.rfind(')')? + 2..];
    let f: Vec<&str> = rest.split_whitespace().collect();
    // rest[0] is field 3 (state); utime = field 14, stime = field 15
    let ut: f64 = f.get(11)?.parse().ok()?;
    let st: f64 = f.get(12)?.parse().ok()?;
    Some((ut + st) / 100.0)
}

#[derive(Default)]
pub struct LaneResult {
    pub name: String,
    pub evaluations: u64,
    pub distinct: u64,
    pub distinct_nontrivial: u64,
    pub shards_done: usize,
    pub shards: usize,
    pub stopped_by_time_cap: usize,
    pub wall_s: f64,
    pub floor: u64,
    pub restarts: usize,
}

pub struct FoundViolation {
    pub signature: String,
    pub detail: String,
    pub replay: Option<String>,
    pub count: u64,
}

pub struct Aggregate {
    pub lanes: Vec<LaneResult>,
    pub tags: BTreeMap<String, u64>,
    pub counters: BTreeMap<String, u64>,
    pub maxima: BTreeMap<String, u64>,
    pub distinct: BTreeMap<String, HashSet<String>>,
    pub samples: Vec<Value>,
    pub fallback_samples: Vec<Value>,
    pub violations: Vec<FoundViolation>,
    pub inconclusive: Vec<String>,
    pub all_hashes: HashSet<u64>,
    pub nontrivial_hashes: HashSet<u64>,
}

impl Aggregate {
    fn new() -> Self {
        Aggregate {
            lanes: vec![],
            tags: BTreeMap::new(),
            counters: BTreeMap::new(),
            maxima: BTreeMap::new(),
            distinct: BTreeMap::new(),
            samples: vec![],
            fallback_samples: vec![],
            violations: vec![],
            inconclusive: vec![],
            all_hashes: HashSet::new(),
            nontrivial_hashes: HashSet::new(),
        }
    }

    /// `count` occurrences (0 when the call only adds detail / replay of an already counted one)
    pub fn add_violation(&mut self, sig: &str, detail: &str, replay: Option<String>, count: u64) {
        if let Some(v) = self.violations.iter_mut().find(|v| v.signature == sig) {
            v.count += count;
            if v.replay.is_none() {
                v.replay = replay;
            }
            if v.detail.is_empty() {
                v.detail = detail.to_string();
            }
        } else {
            self.violations.push(FoundViolation {
                signature: sig.to_string(),
                detail: detail.to_string(),
                replay,
                count,
            });
        }
    }
}

fn spawn_shard<P: Prop>(
    lane: &Lane,
    tier: Tier,
    seed: u64,
    shard: usize,
    start: u64,
    out: &Path,
    replay_dir: &Path,
    release: bool,
) -> std::io::Result<Child> {
    let exe = if release {
        // same binary built with the plain release profile (what the wheel ships)
        verif_dir().join("harness/target/release/tuverif")
    } else {
        std::env::current_exe()?
    };
    Command::new(exe)
        .arg("work")
        .arg(P::ID)
        .args(["--tier", tier.name()])
        .args(["--seed", &seed.to_string()])
        .args(["--lane", lane.name])
        .args(["--shard", &shard.to_string()])
        .args(["--nshards", &lane.shards.to_string()])
        .args(["--cases", &lane.cases.to_string()])
        .args(["--start", &start.to_string()])
        .args(["--time-cap", &lane.time_cap_s.to_string()])
        .arg("--out")
        .arg(out)
        .arg("--replays")
        .arg(replay_dir)
        .stdin(Stdio::null())
        .stdout(Stdio::null())
        .stderr(Stdio::null())
        .spawn()
}

fn run_lane<P: Prop>(
    lane: &Lane,
    tier: Tier,
    seed: u64,
    run_dir: &Path,
    replay_dir: &Path,
    agg: &mut Aggregate,
) {
    let t0 = Instant::now();
    let release = lane.name.ends_with("-release");
    let lane_dir = run_dir.join(lane.name);
    let _ = fs::remove_dir_all(&lane_dir);
    let _ = fs::create_dir_all(&lane_dir);
    let mut shards: Vec<Shard> = vec![];
    for i in 0..lane.shards {
        let out = lane_dir.join(format!("shard_{i}"));
        let _ = fs::create_dir_all(&out);
        let child = spawn_shard::<P>(lane, tier, seed, i, 0, &out, replay_dir, release);
        match child {
            Ok(c) => shards.push(Shard {
                idx: i,
                child: Some(c),
                out,
                last_cur: None,
                cpu_at_change: 0.0,
                restarts: 0,
                finished: false,
            }),
            Err(e) => {
                agg.inconclusive
                    .push(format!("lane {}: cannot spawn worker: {e}", lane.name));
                return;
            }
        }
    }
    // generous wall-clock watchdog; its firing is inconclusive, never a violation
    let watchdog = Duration::from_secs(lane.time_cap_s * 3 + 300);
    let max_restarts = 6;
    loop {
        let mut running = 0;
        for sh in shards.iter_mut() {
            if sh.finished {
                continue;
            }
            let Some(child) = sh.child.as_mut() else {
                sh.finished = true;
                continue;
            };
            let pid = child.id();
            match child.try_wait() {
                Ok(Some(status)) => {
                    // scratch files of the finished worker (only ever of a dead pid)
                    let _ = fs::remove_dir_all(
                        std::env::temp_dir().join(format!("tuverif-{pid}")),
                    );
                    let has_summary = shard_has_summary(&sh.out);
                    if status.success() && has_summary {
                        sh.finished = true;
                        continue;
                    }
                    if status.code() == Some(EXIT_RESTART) {
                        // the worker asked for a fresh process after a case that left stuck
                        // threads behind (the violation itself is in its log)
                        let next = read_cur(&sh.out.join("cur")).map(|c| c.0 + 1).unwrap_or(0);
                        if sh.restarts < 40 {
                            sh.restarts += 1;
                            match spawn_shard::<P>(
                                lane, tier, seed, sh.idx, next, &sh.out, replay_dir, release,
                            ) {
                                Ok(c) => {
                                    sh.child = Some(c);
                                    sh.last_cur = None;
                                    sh.cpu_at_change = 0.0;
                                    running += 1;
                                }
                                Err(_) => sh.finished = true,
                            }
                        } else {
                            sh.finished = true;
                        }
                        continue;
                    }
                    // the worker died in the middle of a case: that is an observation about the
                    // case it was running (abort, stack overflow, process::exit from the repo's
                    // panic hook), unless the kernel killed it (SIGKILL -> inconclusive)
                    use std::os::unix::process::ExitStatusExt;
                    let cur = read_cur(&sh.out.join("cur"));
                    if status.signal() == Some(9) {
                        agg.inconclusive.push(format!(
                            "lane {} shard {}: worker killed by SIGKILL (out of memory?)",
                            lane.name, sh.idx
                        ));
                        sh.finished = true;
                        continue;
                    }
                    let what = match (status.code(), status.signal()) {
                        (Some(c), _) => format!("exit-code-{c}"),
                        (_, Some(s)) => format!("signal-{s}"),
                        _ => "unknown".to_string(),
                    };
                    if let Some((cidx, cseed)) = cur {
                        let case = describe_case::<P>(tier, lane.name, cseed);
                        let v = Violation {
                            signature: format!("process-died/{what}"),
                            detail: format!(
                                "worker process ended ({what}) while running case {cidx} of lane {}",
                                lane.name
                            ),
                        };
                        let rec =
                            replay_record::<P>(lane.name, tier, seed, cidx, cseed, &case, &v);
                        let p = write_replay(replay_dir, &rec);
                        agg.add_violation(&v.signature, &v.detail, Some(p.display().to_string()), 1);
                        if sh.restarts < max_restarts {
                            sh.restarts += 1;
                            match spawn_shard::<P>(
                                lane,
                                tier,
                                seed,
                                sh.idx,
                                cidx + 1,
                                &sh.out,
                                replay_dir,
                                release,
                            ) {
                                Ok(c) => {
                                    sh.child = Some(c);
                                    sh.last_cur = None;
                                    sh.cpu_at_change = 0.0;
                                    running += 1;
                                }
                                Err(_) => sh.finished = true,
                            }
                        } else {
                            sh.finished = true;
                        }
                    } else {
                        agg.inconclusive.push(format!(
                            "lane {} shard {}: worker ended ({what}) before its first case",
                            lane.name, sh.idx
                        ));
                        sh.finished = true;
                    }
                }
                Ok(None) => {
                    running += 1;
                    if let Some(budget) = lane.cpu_hang_s {
                        let cur = read_cur(&sh.out.join("cur"));
                        let cpu = proc_cpu_seconds(pid).unwrap_or(0.0);
                        if cur != sh.last_cur {
                            sh.last_cur = cur;
                            sh.cpu_at_change = cpu;
                        } else if let Some((cidx, cseed)) = cur {
                            if cpu - sh.cpu_at_change > budget as f64 {
                                // non-termination decided in CPU time, not wall-clock
                                let _ = child.kill();
                                let _ = child.wait();
                                let _ = fs::remove_dir_all(
                                    std::env::temp_dir().join(format!("tuverif-{pid}")),
                                );
                                let case = describe_case::<P>(tier, lane.name, cseed);
                                let v = Violation {
                                    signature: "non-termination".to_string(),
                                    detail: format!(
                                        "case {cidx} of lane {} burnt more than {budget} CPU seconds \
                                         without finishing",
                                        lane.name
                                    ),
                                };
                                let rec = replay_record::<P>(
                                    lane.name, tier, seed, cidx, cseed, &case, &v,
                                );
                                let p = write_replay(replay_dir, &rec);
                                agg.add_violation(
                                    &v.signature,
                                    &v.detail,
                                    Some(p.display().to_string()),
                                    1,
                                );
                                if sh.restarts < max_restarts {
                                    sh.restarts += 1;
                                    match spawn_shard::<P>(
                                        lane,
                                        tier,
                                        seed,
                                        sh.idx,
                                        cidx + 1,
                                        &sh.out,
                                        replay_dir,
                                        release,
                                    ) {
                                        Ok(c) => {
                                            sh.child = Some(c);
                                            sh.last_cur = None;
                                            sh.cpu_at_change = 0.0;
                                        }
                                        Err(_) => {
                                            sh.finished = true;
                                            running -= 1;
                                        }
                                    }
                                } else {
                                    sh.finished = true;
                                    running -= 1;
                                }
                            }
                        }
                    }
                }
                Err(_) => {
                    sh.finished = true;
                }
            }
        }
        if running == 0 {
            break;
        }
        if t0.elapsed() > watchdog {
            for sh in shards.iter_mut() {
                if let Some(c) = sh.child.as_mut() {
                    let _ = c.kill();
                    let _ = c.wait();
                }
            }
            agg.inconclusive.push(format!(
                "lane {}: wall-clock watchdog ({} s) fired",
                lane.name,
                watchdog.as_secs()
            ));
            break;
        }
        std::thread::sleep(Duration::from_millis(25));
    }
    // aggregate the shard logs
    let mut lr = LaneResult {
        name: lane.name.to_string(),
        shards: lane.shards,
        floor: lane.floor,
        ..Default::default()
    };
    let mut hash_records = 0u64;
    let mut lane_all: HashSet<u64> = HashSet::new();
    let mut lane_nt: HashSet<u64> = HashSet::new();
    for sh in &shards {
        if let Ok(b) = fs::read(sh.out.join("hashes.bin")) {
            hash_records += (b.len() / 9) as u64;
            for rec in b.chunks_exact(9) {
                let h = u64::from_le_bytes(rec[..8].try_into().unwrap());
                lane_all.insert(h);
                if rec[8] != 0 {
                    lane_nt.insert(h);
                }
            }
        }
        let Ok(log) = fs::read_to_string(sh.out.join("log.jsonl")) else {
            continue;
        };
        for line in log.lines() {
            let Ok(v) = serde_json::from_str::<Value>(line) else {
                continue;
            };
            match v["t"].as_str() {
                Some("summary") => {
                    let Ok(s) = serde_json::from_value::<ShardSummary>(v["summary"].clone())
                    else {
                        continue;
                    };
                    lr.evaluations += s.evaluations;
                    if s.done {
                        lr.shards_done += 1;
                    }
                    lr.restarts += usize::from(!s.done);
                    if s.stopped_by_time_cap {
                        lr.stopped_by_time_cap += 1;
                    }
                    for (k, n) in s.tags {
                        *agg.tags.entry(k).or_insert(0) += n;
                    }
                    for (k, n) in s.counters {
                        *agg.counters.entry(k).or_insert(0) += n;
                    }
                    for (k, n) in s.maxima {
                        let e = agg.maxima.entry(k).or_insert(0);
                        *e = (*e).max(n);
                    }
                    for (sig, n) in s.violation_counts {
                        agg.add_violation(&sig, "", None, n);
                    }
                    for r in s.inconclusive {
                        if agg.inconclusive.len() < 20 {
                            agg.inconclusive
                                .push(format!("lane {}: {}", lane.name, r));
                        }
                    }
                    for smp in s.samples {
                        if agg.samples.len() < 5 {
                            let mut smp = smp;
                            smp["lane"] = json!(lane.name);
                            agg.samples.push(smp);
                        }
                    }
                    if let Some(mut smp) = s.fallback_sample {
                        if agg.fallback_samples.len() < 2 {
                            smp["lane"] = json!(lane.name);
                            agg.fallback_samples.push(smp);
                        }
                    }
                }
                Some("violation") => {
                    agg.add_violation(
                        v["signature"].as_str().unwrap_or("?"),
                        v["detail"].as_str().unwrap_or(""),
                        v["replay"].as_str().map(|s| s.to_string()),
                        0,
                    );
                }
                Some("distinct") => {
                    agg.distinct
                        .entry(v["name"].as_str().unwrap_or("?").to_string())
                        .or_default()
                        .insert(v["h"].as_str().unwrap_or("").to_string());
                }
                _ => {}
            }
        }
    }
    // workers that were killed (non-termination) never wrote a summary: their finished cases are
    // still in the hash records
    lr.evaluations = lr.evaluations.max(hash_records);
    lr.distinct = lane_all.len() as u64;
    lr.distinct_nontrivial = lane_nt.len() as u64;
    lr.wall_s = t0.elapsed().as_secs_f64();
    agg.all_hashes.extend(lane_all.iter().map(|h| hash64(&(lane.name, h))));
    agg.nontrivial_hashes
        .extend(lane_nt.iter().map(|h| hash64(&(lane.name, h))));
    agg.lanes.push(lr);
}

fn shard_has_summary(out: &Path) -> bool {
    fs::read_to_string(out.join("log.jsonl"))
        .map(|s| s.lines().any(|l| l.contains("\"t\":\"summary\"")))
        .unwrap_or(false)
}

#[derive(serde::Deserialize, Debug, Clone)]
pub struct KnownFinding {
    pub property: String,
    pub status: String,
    pub signature: String,
    pub what: String,
    #[serde(default)]
    pub commit: Option<String>,
}

pub fn load_known_findings() -> Vec<KnownFinding> {
    let p = verif_dir().join("known_findings.json");
    let Ok(s) = fs::read_to_string(p) else {
        return vec![];
    };
    let Ok(v) = serde_json::from_str::<Value>(&s) else {
        return vec![];
    };
    v["findings"]
        .as_array()
        .map(|a| {
            a.iter()
                .filter_map(|e| serde_json::from_value(e.clone()).ok())
                .collect()
        })
        .unwrap_or_default()
}

/// Extra lanes that are not run by this binary's native workers (Miri, ASan): they are driven
/// by `extra_lanes` hooks of main.rs and report through this struct.
#[derive(Default, Clone, Debug, serde::Serialize)]
pub struct SanitizerReport {
    pub tool: String,
    pub executions: u64,
    pub reports: u64,
    pub detail: String,
    pub wall_s: f64,
}

pub struct Outcome {
    pub exit_code: i32,
}

#[allow(clippy::too_many_arguments)]
pub fn supervise<P: Prop>(
    tier: Tier,
    seed: u64,
    extra: &dyn Fn(Tier, u64, &mut Aggregate) -> Vec<SanitizerReport>,
) -> Outcome {
    let t0 = Instant::now();
    let vd = verif_dir();
    let run_dir = vd.join("run").join(P::ID).join(tier.name());
    let replay_dir = vd.join("replays").join(P::ID);
    let _ = fs::remove_dir_all(&run_dir);
    let _ = fs::create_dir_all(&run_dir);
    let _ = fs::create_dir_all(&replay_dir);
    let mut agg = Aggregate::new();
    let only_lane = std::env::var("TUVERIF_LANE").ok();
    let scale: f64 = std::env::var("TUVERIF_SCALE")
        .ok()
        .and_then(|s| s.parse().ok())
        .unwrap_or(1.0);
    let mut lanes = P::lanes(tier);
    // thorough repeats the arithmetic-sensitive workloads on the plain release profile (what the
    // Python wheel ships: no overflow checks, no debug assertions)
    if tier == Tier::Thorough && ["C06", "C15", "C16", "C20"].contains(&P::ID) {
        let extra: Vec<Lane> = lanes
            .iter()
            .filter(|l| l.name == "main")
            .map(|l| {
                let mut r = l.clone();
                r.name = "main-release";
                r.cases = (l.cases / 4).max(l.shards as u64);
                r.floor = (l.floor / 8).max(2);
                r
            })
            .collect();
        lanes.extend(extra);
    }
    for mut lane in lanes {
        if let Some(l) = &only_lane {
            if l != lane.name {
                continue;
            }
        }
        if std::env::var("TUVERIF_NO_EXTRA").is_ok() && lane.name.ends_with("-release") {
            continue;
        }
        // development aid (which lanes catch a seeded change): comma separated lanes to leave out
        if let Ok(skip) = std::env::var("TUVERIF_SKIP_LANES") {
            if skip.split(',').any(|x| x == lane.name) {
                continue;
            }
        }
        // CPU budget per case (non-termination verdict): the biggest legitimate cases of the `large`
        // lanes cost a few CPU seconds in the checked profile (the repo is quadratic in places), so
        // they get six times the default; slower builds (ASan, coverage) multiply every budget
        if lane.name == "large" && lane.cpu_hang_s == Some(20) {
            lane.cpu_hang_s = Some(120);
        }
        if let (Some(b), Some(f)) = (
            lane.cpu_hang_s,
            std::env::var("TUVERIF_HANG_FACTOR").ok().and_then(|s| s.parse::<u64>().ok()),
        ) {
            lane.cpu_hang_s = Some(b * f.max(1));
        }
        if scale != 1.0 {
            lane.cases = ((lane.cases as f64 * scale) as u64).max(lane.shards as u64);
            lane.floor = ((lane.floor as f64 * scale * 0.5) as u64).max(2);
        }
        run_lane::<P>(&lane, tier, seed, &run_dir, &replay_dir, &mut agg);
    }
    let sanitizer = extra(tier, seed, &mut agg);

    // verdict
    let known = load_known_findings();
    let mut known_lines = vec![];
    let mut new_violations = vec![];
    for v in &agg.violations {
        let k = known.iter().find(|k| {
            k.property == P::ID && k.status == "known" && k.signature == v.signature
        });
        match k {
            Some(k) => known_lines.push(format!(
                "KNOWN-FINDING: property={} {} (signature {}, seen {} times)",
                P::ID,
                k.what,
                k.signature,
                v.count
            )),
            None => new_violations.push(v),
        }
    }
    let evaluations: u64 = agg.lanes.iter().map(|l| l.evaluations).sum();
    let distinct_nontrivial = agg.nontrivial_hashes.len() as u64;
    for l in &agg.lanes {
        if l.distinct_nontrivial < l.floor {
            agg.inconclusive.push(format!(
                "lane {}: only {} distinct non-trivial cases observed (floor {})",
                l.name, l.distinct_nontrivial, l.floor
            ));
        }
        if l.shards_done < l.shards && new_violations.is_empty() {
            agg.inconclusive.push(format!(
                "lane {}: only {} of {} shards finished",
                l.name, l.shards_done, l.shards
            ));
        }
    }
    if agg.lanes.is_empty() {
        agg.inconclusive
            .push("no native lane was run (TUVERIF_LANE selects none)".to_string());
    }
    let verdict = if !new_violations.is_empty() {
        "violated"
    } else if !agg.inconclusive.is_empty() {
        "inconclusive"
    } else {
        "held"
    };
    let wall = t0.elapsed().as_secs_f64();

    // evidence
    let lanes_json: Vec<Value> = agg
        .lanes
        .iter()
        .map(|l| {
            json!({
                "lane": l.name,
                "evaluations": l.evaluations,
                "distinct_cases": l.distinct,
                "distinct_nontrivial": l.distinct_nontrivial,
                "shards_finished": l.shards_done,
                "shards": l.shards,
                "shards_stopped_by_time_cap": l.stopped_by_time_cap,
                "wall_s": (l.wall_s * 100.0).round() / 100.0,
            })
        })
        .collect();
    let distinct_json: BTreeMap<String, usize> =
        agg.distinct.iter().map(|(k, v)| (k.clone(), v.len())).collect();
    if agg.samples.is_empty() {
        agg.samples = std::mem::take(&mut agg.fallback_samples);
    }
    let rule_text = {
            let mut r = P::rule().to_string();
            if P::lanes(tier).iter().any(|l| l.name == "large") && !r.contains("ane large") {
                r.push_str(
                    " Lane large: the same generator with a per-case size multiplier (10 in 60%, 50 in \
                     30%, 250 in 10% of the cases) on every generated length, given to one dimension \
                     where several multiply, plus hand-made shapes beyond 2^8 / 2^16 (tables, items, \
                     sources, lines, repetitions; DESIGN.md 13.3).",
                );
            }
            r
    };
    let mut coverage = json!({
        "evaluations": evaluations,
        "distinct_cases": agg.all_hashes.len(),
        "distinct_nontrivial": distinct_nontrivial,
        "rule": rule_text,
        "samples": agg.samples,
        "lanes": lanes_json,
        "classes_observed": agg.tags,
        "counters": agg.counters,
        "maxima": agg.maxima,
        "distinct_observed": distinct_json,
        "exhaustive": false,
    });
    if !sanitizer.is_empty() {
        coverage["sanitizer_lanes"] = json!(sanitizer);
    }
    let ev = json!({
        "property_id": P::ID,
        "tier": tier.name(),
        "seed": seed,
        "level": P::LEVEL,
        "coverage": coverage,
        "assumptions": P::assumptions(),
        "wall_s": (wall * 100.0).round() / 100.0,
        "violations": new_violations.len(),
        "verdict": verdict,
        "violation_signatures": agg.violations.iter().map(|v| json!({
            "signature": v.signature, "count": v.count, "replay": v.replay, "detail": v.detail,
        })).collect::<Vec<_>>(),
        "known_findings_reported": known_lines.len(),
        "inconclusive_reasons": agg.inconclusive,
    });
    let ev_dir = vd.join("evidence");
    let _ = fs::create_dir_all(&ev_dir);
    let ev_path = ev_dir.join(format!("{}.json", P::ID));
    let tmp = ev_dir.join(format!("{}.json.tmp", P::ID));
    let _ = fs::write(&tmp, serde_json::to_string_pretty(&ev).unwrap_or_default());
    let _ = fs::rename(&tmp, &ev_path);

    // report
    for l in &known_lines {
        println!("{l}");
    }
    for v in &new_violations {
        println!(
            "VIOLATION property={} replay={}",
            P::ID,
            v.replay.clone().unwrap_or_else(|| "-".to_string())
        );
        println!(
            "  signature={} count={} detail={}",
            v.signature,
            v.count,
            v.detail.chars().take(600).collect::<String>()
        );
    }
    let lanes_txt: Vec<String> = agg
        .lanes
        .iter()
        .map(|l| format!("{}:{}/{}nt", l.name, l.evaluations, l.distinct_nontrivial))
        .collect();
    match verdict {
        "held" => {
            println!(
                "HELD property={} tier={} seed={} evaluations={} distinct_nontrivial={} lanes=[{}] wall_s={:.1}",
                P::ID,
                tier.name(),
                seed,
                evaluations,
                distinct_nontrivial,
                lanes_txt.join(" "),
                wall
            );
            Outcome { exit_code: 0 }
        }
        "violated" => {
            println!(
                "VIOLATED property={} tier={} seed={} evaluations={} new_violation_signatures={}",
                P::ID,
                tier.name(),
                seed,
                evaluations,
                new_violations.len()
            );
            Outcome { exit_code: 1 }
        }
        _ => {
            for r in &agg.inconclusive {
                println!("INCONCLUSIVE property={} reason={}", P::ID, r);
            }
            Outcome { exit_code: 2 }
        }
    }
}

pub fn no_extra(_: Tier, _: u64, _: &mut Aggregate) -> Vec<SanitizerReport> {
    vec![]
}

#[allow(dead_code)]
pub fn unused(_: HashMap<u8, u8>) {}
