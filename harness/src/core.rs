//! Framework shared by all property monitors: case derivation, observation record,
//! worker loop (one process per shard) and the record formats the supervisor reads.
use rand::SeedableRng;
use rand_chacha::ChaCha8Rng;
use serde::de::DeserializeOwned;
use serde::{Deserialize, Serialize};
use serde_json::{json, Value};
use std::collections::{BTreeMap, HashMap};
use std::fs::{self, File, OpenOptions};
use std::hash::{Hash, Hasher};
use std::io::Write;
use std::os::unix::fs::FileExt;
use std::panic::{self, AssertUnwindSafe};
use std::path::{Path, PathBuf};
use std::sync::Mutex;
use std::time::{Duration, Instant};

pub type Rng = ChaCha8Rng;

#[derive(Clone, Copy, Debug, PartialEq, Eq, Serialize, Deserialize)]
pub enum Tier {
    #[serde(rename = "quick")]
    Quick,
    #[serde(rename = "thorough")]
    Thorough,
}

impl Tier {
    pub fn parse(s: &str) -> Option<Tier> {
        match s {
            "quick" => Some(Tier::Quick),
            "thorough" => Some(Tier::Thorough),
            _ => None,
        }
    }
    pub fn name(&self) -> &'static str {
        match self {
            Tier::Quick => "quick",
            Tier::Thorough => "thorough",
        }
    }
    pub fn pick<T>(&self, quick: T, thorough: T) -> T {
        match self {
            Tier::Quick => quick,
            Tier::Thorough => thorough,
        }
    }
}

/// deterministic 64 bit hash (SipHash with fixed keys)
pub fn hash64<T: Hash + ?Sized>(v: &T) -> u64 {
    #[allow(deprecated)]
    let mut h = std::hash::SipHasher::new_with_keys(0x7475_7665_7269_6621, 0x0123_4567_89ab_cdef);
    v.hash(&mut h);
    h.finish()
}

pub fn hash_json(v: &Value) -> u64 {
    hash64(&v.to_string())
}

pub fn case_seed(seed: u64, prop: &str, lane: &str, idx: u64) -> u64 {
    hash64(&(seed, prop, lane, idx))
}

/// What one lane of a property runs.
#[derive(Clone, Debug)]
pub struct Lane {
    pub name: &'static str,
    /// number of cases over all shards
    pub cases: u64,
    /// soft wall clock cap for the lane (seconds): no new case is started after it
    pub time_cap_s: u64,
    /// CPU seconds a single case may burn before the supervisor calls it non-termination;
    /// None for workloads whose threads spin legitimately (verdicts there are logical)
    pub cpu_hang_s: Option<u64>,
    /// number of worker processes
    pub shards: usize,
    /// minimum number of distinct non-trivial cases below which the lane is inconclusive
    pub floor: u64,
}

impl Lane {
    pub fn new(name: &'static str, cases: u64) -> Self {
        Lane {
            name,
            cases,
            time_cap_s: 120,
            cpu_hang_s: Some(20),
            shards: 16,
            floor: 10,
        }
    }
    pub fn cap(mut self, s: u64) -> Self {
        self.time_cap_s = s;
        self
    }
    pub fn hang(mut self, s: Option<u64>) -> Self {
        self.cpu_hang_s = s;
        self
    }
    pub fn shards(mut self, n: usize) -> Self {
        self.shards = n;
        self
    }
    pub fn floor(mut self, n: u64) -> Self {
        self.floor = n;
        self
    }
}

#[derive(Clone, Debug, Serialize, Deserialize)]
pub struct Violation {
    pub signature: String,
    pub detail: String,
}

/// Observation record of one case.
#[derive(Default)]
pub struct Obs {
    pub nontrivial: bool,
    pub tags: Vec<&'static str>,
    pub counters: Vec<(&'static str, u64)>,
    pub maxima: Vec<(&'static str, u64)>,
    pub distinct: Vec<(&'static str, u64)>,
    pub violations: Vec<Violation>,
    pub inconclusive: Vec<String>,
    pub note: Option<Value>,
    /// the case left threads behind that cannot be cleaned up (a deadlock was observed): the
    /// worker process ends after logging this case and the supervisor starts a fresh one
    pub poisoned: bool,
    /// case to store in the replay file instead of the generated one (e.g. the same case with the
    /// recorded grant sequence as its strategy, so that a replay re-drives exactly that schedule)
    pub replay_case: Option<Value>,
}

pub const EXIT_RESTART: i32 = 17;

impl Obs {
    pub fn poison(&mut self) {
        self.poisoned = true;
    }
    pub fn nontrivial(&mut self) {
        self.nontrivial = true;
    }
    pub fn nontrivial_if(&mut self, c: bool) {
        if c {
            self.nontrivial = true;
        }
    }
    /// count an occurrence of an operation class / input class
    pub fn tag(&mut self, t: &'static str) {
        self.tags.push(t);
    }
    pub fn tag_if(&mut self, c: bool, t: &'static str) {
        if c {
            self.tags.push(t);
        }
    }
    pub fn add(&mut self, name: &'static str, n: u64) {
        self.counters.push((name, n));
    }
    pub fn max(&mut self, name: &'static str, n: u64) {
        self.maxima.push((name, n));
    }
    pub fn distinct(&mut self, name: &'static str, h: u64) {
        self.distinct.push((name, h));
    }
    pub fn fail(&mut self, signature: impl Into<String>, detail: impl Into<String>) {
        self.violations.push(Violation {
            signature: signature.into(),
            detail: detail.into(),
        });
    }
    /// returns the condition so it can be used in `if !obs.check(..) { return }`
    pub fn check(&mut self, cond: bool, signature: &str, detail: impl FnOnce() -> String) -> bool {
        if !cond {
            self.fail(signature, detail());
        }
        cond
    }
    pub fn inconclusive(&mut self, reason: impl Into<String>) {
        self.inconclusive.push(reason.into());
    }
    pub fn note(&mut self, v: Value) {
        self.note = Some(v);
    }
    pub fn ok(&self) -> bool {
        self.violations.is_empty()
    }
}

pub trait Prop {
    type Case: Serialize + DeserializeOwned;
    const ID: &'static str;
    const LEVEL: &'static str = "exploration";
    fn lanes(tier: Tier) -> Vec<Lane>;
    fn rule() -> &'static str;
    fn assumptions() -> Vec<&'static str> {
        vec![]
    }
    fn generate(rng: &mut Rng, tier: Tier, lane: &str) -> Self::Case;
    fn check(case: &Self::Case, obs: &mut Obs);
    /// true if the repo code run by `check` replaces the global panic hook (Pipe::new, train_bpe),
    /// so the harness re-installs its quiet hook after every case
    const RESETS_PANIC_HOOK: bool = false;
}

// ---------------------------------------------------------------------------------------
// panic capture

static LAST_PANIC: Mutex<Option<(String, String)>> = Mutex::new(None);

pub fn install_quiet_panic_hook() {
    panic::set_hook(Box::new(|info| {
        let loc = info
            .location()
            .map(|l| format!("{}:{}", l.file(), l.line()))
            .unwrap_or_else(|| "?".to_string());
        let msg = if let Some(s) = info.payload().downcast_ref::<&str>() {
            s.to_string()
        } else if let Some(s) = info.payload().downcast_ref::<String>() {
            s.clone()
        } else {
            "<non-string panic payload>".to_string()
        };
        if let Ok(mut g) = LAST_PANIC.lock() {
            // keep the first panic of a case (later ones are usually consequences)
            if g.is_none() {
                *g = Some((loc, msg));
            }
        }
    }));
}

pub fn take_last_panic() -> Option<(String, String)> {
    LAST_PANIC.lock().ok().and_then(|mut g| g.take())
}

/// strip the path prefix up to and including "/repo/" or the registry so that signatures are stable
pub fn short_loc(loc: &str) -> String {
    if let Some(p) = loc.find("/src/") {
        // keep crate-relative path
        let head = &loc[..p];
        let krate = head.rsplit('/').next().unwrap_or("");
        if krate == "repo" || krate.is_empty() {
            loc[p + 1..].to_string()
        } else {
            format!("{}{}", krate, &loc[p..])
        }
    } else {
        loc.to_string()
    }
}

/// run `f` under catch_unwind; Err carries (short location, message)
pub fn catch<R>(f: impl FnOnce() -> R) -> Result<R, (String, String)> {
    let _ = take_last_panic();
    match panic::catch_unwind(AssertUnwindSafe(f)) {
        Ok(r) => Ok(r),
        Err(_) => {
            let (loc, msg) = take_last_panic().unwrap_or(("?".into(), "?".into()));
            Err((short_loc(&loc), msg))
        }
    }
}

/// run `f` under catch_unwind; a panic becomes a violation `<what>/panic@<file>`
/// (line numbers are kept out of the signature so that it survives unrelated edits)
pub fn guarded<R>(obs: &mut Obs, what: &str, f: impl FnOnce() -> R) -> Option<R> {
    match catch(f) {
        Ok(r) => Some(r),
        Err((loc, msg)) => {
            let file = loc.split(':').next().unwrap_or("?").to_string();
            obs.fail(
                format!("{what}/panic@{file}"),
                format!("panic at {loc}: {msg}"),
            );
            None
        }
    }
}

// ---------------------------------------------------------------------------------------
// worker

pub struct WorkArgs {
    pub tier: Tier,
    pub seed: u64,
    pub lane: String,
    pub shard: usize,
    pub nshards: usize,
    pub cases: u64,
    pub start: u64,
    pub time_cap_s: u64,
    pub out: PathBuf,
    pub replay_dir: PathBuf,
}

#[derive(Serialize, Deserialize, Default, Debug)]
pub struct ShardSummary {
    pub lane: String,
    pub shard: usize,
    pub evaluations: u64,
    pub done: bool,
    pub stopped_by_time_cap: bool,
    pub tags: BTreeMap<String, u64>,
    pub counters: BTreeMap<String, u64>,
    pub maxima: BTreeMap<String, u64>,
    pub violations: u64,
    pub violation_counts: BTreeMap<String, u64>,
    pub inconclusive: Vec<String>,
    pub samples: Vec<Value>,
    #[serde(default)]
    pub fallback_sample: Option<Value>,
    pub wall_s: f64,
}

const MAX_REPLAYS_PER_SIGNATURE: usize = 2;
const MAX_LOGGED_PER_SIGNATURE: usize = 20;

pub fn write_cur(f: &File, idx: u64, cseed: u64) {
    let mut buf = [0u8; 16];
    buf[..8].copy_from_slice(&idx.to_le_bytes());
    buf[8..].copy_from_slice(&cseed.to_le_bytes());
    let _ = f.write_all_at(&buf, 0);
}

pub fn read_cur(p: &Path) -> Option<(u64, u64)> {
    let b = fs::read(p).ok()?;
    if b.len() < 16 {
        return None;
    }
    Some((
        u64::from_le_bytes(b[..8].try_into().ok()?),
        u64::from_le_bytes(b[8..16].try_into().ok()?),
    ))
}

pub fn replay_record<P: Prop>(
    lane: &str,
    tier: Tier,
    seed: u64,
    idx: u64,
    cseed: u64,
    case: &Value,
    v: &Violation,
) -> Value {
    json!({
        "property": P::ID,
        "lane": lane,
        "tier": tier.name(),
        "seed": seed,
        "case_index": idx,
        "case_seed": cseed,
        "case": case,
        "signature": v.signature,
        "detail": v.detail,
    })
}

pub fn write_replay(dir: &Path, rec: &Value) -> PathBuf {
    let _ = fs::create_dir_all(dir);
    let h = hash_json(rec);
    let p = dir.join(format!("{h:016x}.json"));
    let _ = fs::write(&p, serde_json::to_string_pretty(rec).unwrap_or_default());
    p
}

pub fn run_worker<P: Prop>(a: WorkArgs) -> anyhow::Result<()> {
    fs::create_dir_all(&a.out)?;
    let t0 = Instant::now();
    install_quiet_panic_hook();
    let cur = OpenOptions::new()
        .create(true)
        .write(true)
        .truncate(true)
        .open(a.out.join("cur"))?;
    let mut log = OpenOptions::new()
        .create(true)
        .append(true)
        .open(a.out.join("log.jsonl"))?;
    let mut hashes = OpenOptions::new()
        .create(true)
        .append(true)
        .open(a.out.join("hashes.bin"))?;
    let mut hbuf: Vec<u8> = Vec::with_capacity(1 << 16);
    let mut sum = ShardSummary {
        lane: a.lane.clone(),
        shard: a.shard,
        ..Default::default()
    };
    let mut per_sig: HashMap<String, usize> = HashMap::new();
    let mut idx = a.start;
    // first index of this shard at or after start
    while idx % a.nshards as u64 != a.shard as u64 {
        idx += 1;
    }
    let cap = Duration::from_secs(a.time_cap_s);
    while idx < a.cases {
        if t0.elapsed() > cap {
            sum.stopped_by_time_cap = true;
            break;
        }
        let cseed = case_seed(a.seed, P::ID, &a.lane, idx);
        write_cur(&cur, idx, cseed);
        let mut rng = Rng::seed_from_u64(cseed);
        // "<lane>-release" lanes run the generator of <lane> in the plain release build
        let gen_lane = a.lane.strip_suffix("-release").unwrap_or(&a.lane);
        let case = gen_case::<P>(&mut rng, a.tier, gen_lane);
        let mut obs = Obs::default();
        if let Err((loc, msg)) = catch(|| P::check(&case, &mut obs)) {
            let file = loc.split(':').next().unwrap_or("?").to_string();
            obs.fail(
                format!("check/panic@{file}"),
                format!("panic at {loc}: {msg}"),
            );
        }
        if P::RESETS_PANIC_HOOK {
            install_quiet_panic_hook();
        }
        sum.evaluations += 1;
        let case_json = serde_json::to_value(&case).unwrap_or(Value::Null);
        let h = hash_json(&case_json);
        hbuf.extend_from_slice(&h.to_le_bytes());
        hbuf.push(obs.nontrivial as u8);
        for (name, dh) in &obs.distinct {
            // distinct sets are merged by the supervisor: (name hash, value hash) records
            let line = json!({"t": "distinct", "name": name, "h": format!("{dh:016x}")});
            writeln!(log, "{line}")?;
        }
        for t in &obs.tags {
            *sum.tags.entry(t.to_string()).or_insert(0) += 1;
        }
        for (n, v) in &obs.counters {
            *sum.counters.entry(n.to_string()).or_insert(0) += v;
        }
        for (n, v) in &obs.maxima {
            let e = sum.maxima.entry(n.to_string()).or_insert(0);
            *e = (*e).max(*v);
        }
        for r in &obs.inconclusive {
            if sum.inconclusive.len() < 20 {
                sum.inconclusive.push(r.clone());
            }
        }
        if obs.nontrivial && sum.samples.len() < 3 && obs.violations.is_empty() {
            let mut s = json!({"case": case_json.clone()});
            if let Some(n) = &obs.note {
                s["observed"] = n.clone();
            }
            sum.samples.push(s);
        } else if sum.fallback_sample.is_none() {
            // shown only if the run has no non-trivial, non-violating case to show
            let mut s = json!({"case": case_json.clone(), "nontrivial": obs.nontrivial,
                "violating": !obs.violations.is_empty()});
            if let Some(n) = &obs.note {
                s["observed"] = n.clone();
            }
            sum.fallback_sample = Some(s);
        }
        for v in &obs.violations {
            sum.violations += 1;
            let n = per_sig.entry(v.signature.clone()).or_insert(0);
            *n += 1;
            let replay = if *n <= MAX_REPLAYS_PER_SIGNATURE {
                let rc = obs.replay_case.as_ref().unwrap_or(&case_json);
                let rec = replay_record::<P>(&a.lane, a.tier, a.seed, idx, cseed, rc, v);
                Some(write_replay(&a.replay_dir, &rec))
            } else {
                None
            };
            *sum.violation_counts.entry(v.signature.clone()).or_insert(0) += 1;
            if *n <= MAX_LOGGED_PER_SIGNATURE {
                let line = json!({
                    "t": "violation",
                    "signature": v.signature,
                    "detail": v.detail,
                    "replay": replay.map(|p| p.display().to_string()),
                    "case_index": idx,
                });
                writeln!(log, "{line}")?;
            }
        }
        if hbuf.len() >= 9 * 512 {
            hashes.write_all(&hbuf)?;
            hbuf.clear();
        }
        if obs.poisoned {
            hashes.write_all(&hbuf)?;
            sum.wall_s = t0.elapsed().as_secs_f64();
            let line = json!({"t": "summary", "summary": sum});
            writeln!(log, "{line}")?;
            log.flush()?;
            std::process::exit(EXIT_RESTART);
        }
        idx += a.nshards as u64;
    }
    hashes.write_all(&hbuf)?;
    sum.done = true;
    sum.wall_s = t0.elapsed().as_secs_f64();
    let line = json!({"t": "summary", "summary": sum});
    writeln!(log, "{line}")?;
    Ok(())
}

/// replay one recorded case; returns the violations it produced
pub fn run_replay<P: Prop>(case: &Value) -> anyhow::Result<(Vec<Violation>, Vec<String>)> {
    install_quiet_panic_hook();
    let case: P::Case = serde_json::from_value(case.clone())?;
    let mut obs = Obs::default();
    if let Err((loc, msg)) = catch(|| P::check(&case, &mut obs)) {
        let file = loc.split(':').next().unwrap_or("?").to_string();
        obs.fail(
            format!("check/panic@{file}"),
            format!("panic at {loc}: {msg}"),
        );
    }
    Ok((obs.violations, obs.inconclusive))
}

thread_local! {
    static IN_HISTORY: std::cell::Cell<bool> = const { std::cell::Cell::new(false) };
}

/// History round, for state that survives between calls (a cache keyed by the text but not by a
/// mode flag, a scratch buffer that is not reset): every third case is executed as
/// `check(flip(c))` with its verdicts thrown away, then `check(c)`, in the same process and thread,
/// `flip` toggling a mode flag on the same inputs. (This order, not c - flip - c: a memo that
/// answers a hit without storing gives the first caller's result to everyone, so the judged run
/// must come second.) Only the run of `c` itself is judged, so a flipped case that falls outside
/// the statement cannot raise an alarm; a replay re-executes the same sequence. Call at the top of `Prop::check`; returns true if it ran the case
/// (the caller returns), false if the caller is already inside a round and runs its body.
pub fn history_round<C: Serialize>(
    c: &C,
    obs: &mut Obs,
    flip: impl Fn(&C) -> C,
    check: impl Fn(&C, &mut Obs),
) -> bool {
    if IN_HISTORY.with(|h| h.get()) {
        return false;
    }
    struct Reset;
    impl Drop for Reset {
        fn drop(&mut self) {
            IN_HISTORY.with(|h| h.set(false));
        }
    }
    IN_HISTORY.with(|h| h.set(true));
    let _reset = Reset;
    if hash64(&serde_json::to_string(c).unwrap_or_default()) % 3 == 0 {
        obs.tag("history/flag-flipped-call-first");
        let v = flip(c);
        let mut throwaway = Obs::default();
        let _ = catch(|| check(&v, &mut throwaway));
    }
    check(c, obs);
    true
}

/// `P::generate` with the size multiplier of the `large` lanes: 10 (60%), 50 (30%) or 250 (10%) times
/// the lengths of the ordinary generator, drawn from the case's own rng so that it replays.
pub fn gen_case<P: Prop>(rng: &mut Rng, tier: Tier, lane: &str) -> P::Case {
    use rand::Rng as _;
    if lane == "large" {
        let k = match rng.random_range(0..10) {
            0..=5 => 10,
            6..=8 => 50,
            _ => 250,
        };
        crate::gen::set_scale(k);
    }
    let case = P::generate(rng, tier, lane);
    crate::gen::set_scale(1);
    case
}

/// regenerate the case of (lane, case seed) without running it
pub fn describe_case<P: Prop>(tier: Tier, lane: &str, cseed: u64) -> Value {
    let mut rng = Rng::seed_from_u64(cseed);
    let lane = lane.strip_suffix("-release").unwrap_or(lane);
    let case = gen_case::<P>(&mut rng, tier, lane);
    serde_json::to_value(&case).unwrap_or(Value::Null)
}

/// In-process runner used under interpreters / sanitizers where spawning worker processes and
/// writing files is not wanted (Miri): runs the cases `shard, shard+nshards, ...` below `cases` of
/// `lane` and prints one JSON line per violation and a final summary line to stdout.
pub fn run_inprocess<P: Prop>(
    tier: Tier,
    seed: u64,
    lane: &str,
    shard: u64,
    nshards: u64,
    cases: u64,
    budget_s: Option<u64>,
) -> i32 {
    install_quiet_panic_hook();
    // under an interpreter the cost per case varies by orders of magnitude: stop starting new cases
    // after the budget and report what was run (decides only how much is explored)
    let t0 = std::time::Instant::now();
    let mut evaluations = 0u64;
    let mut nontrivial = 0u64;
    let mut violations = 0u64;
    let mut hashes: Vec<String> = vec![];
    let mut idx = shard;
    while idx < cases {
        if budget_s.is_some_and(|b| t0.elapsed().as_secs() >= b) {
            break;
        }
        let cseed = case_seed(seed, P::ID, lane, idx);
        let mut rng = Rng::seed_from_u64(cseed);
        let case = gen_case::<P>(&mut rng, tier, lane);
        let mut obs = Obs::default();
        if let Err((loc, msg)) = catch(|| P::check(&case, &mut obs)) {
            let file = loc.split(':').next().unwrap_or("?").to_string();
            obs.fail(format!("check/panic@{file}"), format!("panic at {loc}: {msg}"));
        }
        if P::RESETS_PANIC_HOOK {
            install_quiet_panic_hook();
        }
        evaluations += 1;
        let cj = serde_json::to_value(&case).unwrap_or(Value::Null);
        if obs.nontrivial {
            nontrivial += 1;
            hashes.push(format!("{:016x}", hash_json(&cj)));
        }
        for v in &obs.violations {
            violations += 1;
            let rec = replay_record::<P>(lane, tier, seed, idx, cseed, &cj, v);
            println!("INPROC-VIOLATION {rec}");
        }
        idx += nshards;
    }
    println!(
        "INPROC-SUMMARY {}",
        json!({"evaluations": evaluations, "nontrivial": nontrivial, "violations": violations, "nontrivial_hashes": hashes})
    );
    0
}
