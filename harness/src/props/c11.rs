//! C11 — `clean` produces the whitespace normal form; `word_boundaries`, `remove`, `full` agree
//! with it.
use crate::core::*;
use crate::gen::{self, chars_of, has_mixed_cluster};
use rand::seq::IndexedRandom;
use rand::Rng as _;
use serde::{Deserialize, Serialize};
use serde_json::json;
use text_utils::{text, whitespace};
use unicode_segmentation::UnicodeSegmentation;

pub struct C11;

#[derive(Serialize, Deserialize, Clone, Debug)]
pub struct Case {
    pub s: String,
    pub graphemes: bool,
    /// the generator inserted letters to separate whitespace from non-whitespace inside a
    /// grapheme cluster (grapheme mode only, evidence only)
    pub repaired: bool,
}

/// characters that make extended grapheme cluster segmentation context dependent and that are
/// not in the shared pools: Prepend, SpacingMark, lone regional indicators, conjoining jamo
const EXOTIC: &[&str] = &[
    "\u{600}", "\u{903}", "🇩", "🇪", "ᄀ", "\u{1161}", "\u{11a8}", "\u{200d}", "\u{301}",
];

fn splice(rng: &mut Rng, s: &str, pool: &[&str], max: usize) -> String {
    let mut cs: Vec<String> = s.chars().map(|c| c.to_string()).collect();
    for _ in 0..rng.random_range(1..=max) {
        let i = rng.random_range(0..=cs.len());
        cs.insert(i, pool.choose(rng).unwrap().to_string());
    }
    cs.concat()
}

/// insert a letter between the whitespace and the non-whitespace code points of every mixed
/// cluster, so the whitespace structure of the string survives the repair
fn make_grapheme_safe(s: &str) -> String {
    let mut cur = s.to_string();
    for _ in 0..4 {
        if !has_mixed_cluster(&cur) {
            return cur;
        }
        let mut out = String::new();
        for g in cur.graphemes(true) {
            let mut prev: Option<bool> = None;
            for c in g.chars() {
                let w = c.is_whitespace();
                if prev.is_some_and(|p| p != w) {
                    out.push('x');
                }
                out.push(c);
                prev = Some(w);
            }
        }
        cur = out;
    }
    if has_mixed_cluster(&cur) {
        cur = cur
            .chars()
            .filter(|c| c.is_alphanumeric() || *c == ' ')
            .collect();
    }
    cur
}

/// reference scan: maximal runs of non-whitespace characters, in character indices
fn ref_boundaries(chars: &[&str]) -> Vec<(usize, usize)> {
    let mut out = vec![];
    let mut i = 0;
    while i < chars.len() {
        if chars[i].chars().any(char::is_whitespace) {
            i += 1;
            continue;
        }
        let mut j = i;
        while j < chars.len() && !chars[j].chars().any(char::is_whitespace) {
            j += 1;
        }
        out.push((i, j));
        i = j;
    }
    out
}

impl Prop for C11 {
    type Case = Case;
    const ID: &'static str = "C11";

    fn lanes(tier: Tier) -> Vec<Lane> {
        vec![
            Lane::new("main", tier.pick(1_500_000, 25_000_000))
                    .cap(tier.pick(120, 1200))
                    .floor(tier.pick(50_000, 500_000)),
            // every length 10 / 50 / 250 times bigger (strings of up to 10 000 symbols)
            Lane::new("large", tier.pick(30_000, 500_000))
                .cap(tier.pick(150, 1200))
                .floor(tier.pick(2_000, 30_000)),
        ]
    }

    fn rule() -> &'static str {
        "strings of 0-40 symbols from the shared Unicode pools (wild / texty / tiny-alphabet; every \
         White_Space code point, CRLF, NBSP, ideographic space, zero-width non-spaces, combining \
         marks, ZWJ emoji, flags), 30%: 1-4 extra White_Space code points spliced in anywhere \
         (leading / trailing / runs), 20%: 1-3 Prepend / SpacingMark / lone regional indicator / lone \
         jamo / ZWJ / combining code points spliced in; x use_graphemes. In grapheme mode strings \
         with a cluster that mixes whitespace and non-whitespace are repaired by inserting a letter \
         (tag `generator-repaired`), except for a 10% share left as drawn, which is measured to be \
         outside the quantifier, only judged for no-panic and tagged `robustness-mixed-cluster`. \
         Every in-quantifier case checks clean (== split_whitespace().join(\" \"), normal form, \
         content preserved, idempotent), word_boundaries (== independent run scan, slices == split \
         words), remove and full. non-trivial = >= 2 words, clean() has to change the string, and \
         the string has a multi-byte character."
    }

    fn assumptions() -> Vec<&'static str> {
        vec![
            "whitespace = char::is_whitespace (Unicode White_Space); the word reference is str::split_whitespace",
            "code point / extended grapheme cluster segmentation is taken from std / unicode-segmentation in the oracle as in the repo (same crate version through the shared lock file)",
            "a failure of idempotence whose first result contains (grapheme mode) a cluster mixing whitespace and non-whitespace gets its own signature clean/not-idempotent/grapheme-output-mixed-cluster",
        ]
    }

    fn generate(rng: &mut Rng, _tier: Tier, _lane: &str) -> Case {
        let graphemes = rng.random_bool(0.5);
        let f = gen::flavor(rng);
        let mut s = gen::ustring(rng, f, 40);
        if rng.random_bool(0.3) {
            s = splice(rng, &s, gen::WHITESPACE, 4);
        }
        if rng.random_bool(0.2) {
            s = splice(rng, &s, EXOTIC, 3);
        }
        let mut repaired = false;
        if graphemes && has_mixed_cluster(&s) && !rng.random_bool(0.1) {
            s = make_grapheme_safe(&s);
            repaired = true;
        }
        Case {
            s,
            graphemes,
            repaired,
        }
    }

    fn check(c: &Case, obs: &mut Obs) {
        // history round (core::history_round): the same inputs with `graphemes` flipped in between
        if history_round(
            c,
            obs,
            |c| {
                let mut v = c.clone();
                v.graphemes = !v.graphemes;
                v
            },
            Self::check,
        ) {
            return;
        }
        let g = c.graphemes;
        let s = c.s.as_str();
        obs.tag(if g { "mode-graphemes" } else { "mode-code-points" });
        obs.tag_if(c.repaired, "generator-repaired");
        if g && has_mixed_cluster(s) {
            obs.tag("robustness-mixed-cluster");
            obs.add("filtered-outside-quantifier", 1);
            let _ = guarded(obs, "robustness/clean", || text::clean(s, g));
            let _ = guarded(obs, "robustness/word_boundaries", || {
                text::word_boundaries(s, g)
            });
            let _ = guarded(obs, "robustness/remove", || whitespace::remove(s, g));
            let _ = guarded(obs, "robustness/full", || whitespace::full(s, g));
            return;
        }
        let words: Vec<&str> = s.split_whitespace().collect();
        let joined = words.join(" ");
        let content: String = s.chars().filter(|ch| !ch.is_whitespace()).collect();

        // ---------------------------------------------------------------- clean
        if let Some(cl) = guarded(obs, "clean", || text::clean(s, g)) {
            obs.check(cl == joined, "clean/not-split-join", || {
                format!("clean({s:?}, {g}) = {cl:?}, expected {joined:?}")
            });
            let cc: Vec<char> = cl.chars().collect();
            let edge = cc.first().is_some_and(|ch| ch.is_whitespace())
                || cc.last().is_some_and(|ch| ch.is_whitespace());
            let double = cc
                .windows(2)
                .any(|w| w[0].is_whitespace() && w[1].is_whitespace());
            let other_sep = cc.iter().any(|ch| ch.is_whitespace() && *ch != ' ');
            obs.check(!edge, "clean/leading-or-trailing-whitespace", || {
                format!("clean({s:?}, {g}) = {cl:?}")
            });
            obs.check(!double, "clean/consecutive-whitespace", || {
                format!("clean({s:?}, {g}) = {cl:?}")
            });
            obs.check(!other_sep, "clean/separator-not-single-space", || {
                format!("clean({s:?}, {g}) = {cl:?}")
            });
            let cl_content: String = cl.chars().filter(|ch| !ch.is_whitespace()).collect();
            obs.check(cl_content == content, "clean/content-changed", || {
                format!("clean({s:?}, {g}) = {cl:?}")
            });
            if let Some(cl2) = guarded(obs, "clean", || text::clean(&cl, g)) {
                if cl2 != cl {
                    let sig = if g && has_mixed_cluster(&cl) {
                        "clean/not-idempotent/grapheme-output-mixed-cluster"
                    } else {
                        "clean/not-idempotent"
                    };
                    obs.fail(
                        sig,
                        format!("s = {s:?}, graphemes {g}: clean(s) = {cl:?}, clean(clean(s)) = {cl2:?}"),
                    );
                }
            }
            obs.nontrivial_if(
                words.len() >= 2 && cl != s && s.chars().any(|ch| ch.len_utf8() > 1),
            );
            obs.tag_if(cl != s, "clean-changes-string");
        }

        // ---------------------------------------------------------------- word_boundaries
        let chars = chars_of(s, g);
        let expect = ref_boundaries(&chars);
        if let Some(wb) = guarded(obs, "word_boundaries", || text::word_boundaries(s, g)) {
            obs.check(wb == expect, "word_boundaries/ranges", || {
                format!("word_boundaries({s:?}, {g}) = {wb:?}, expected {expect:?}")
            });
            let in_range = wb.iter().all(|(a, b)| a < b && *b <= chars.len());
            let ordered = wb.windows(2).all(|w| w[0].1 <= w[1].0);
            if obs.check(in_range && ordered, "word_boundaries/not-ordered-ranges", || {
                format!("word_boundaries({s:?}, {g}) = {wb:?} with {} characters", chars.len())
            }) {
                let sliced: Vec<String> = wb.iter().map(|(a, b)| chars[*a..*b].concat()).collect();
                obs.check(
                    sliced.iter().map(String::as_str).eq(words.iter().copied()),
                    "word_boundaries/slices-not-words",
                    || format!("word_boundaries({s:?}, {g}) = {wb:?} slices {sliced:?}, words {words:?}"),
                );
            }
        }

        // ---------------------------------------------------------------- remove / full
        if let Some(r) = guarded(obs, "remove", || whitespace::remove(s, g)) {
            obs.check(r == content, "remove/value", || {
                format!("remove({s:?}, {g}) = {r:?}, expected {content:?}")
            });
        }
        let solid: Vec<&str> = chars
            .iter()
            .copied()
            .filter(|x| !x.chars().any(char::is_whitespace))
            .collect();
        let expect_full = solid.join(" ");
        if let Some(f) = guarded(obs, "full", || whitespace::full(s, g)) {
            obs.check(f == expect_full, "full/value", || {
                format!("full({s:?}, {g}) = {f:?}, expected {expect_full:?}")
            });
        }

        // ---------------------------------------------------------------- coverage
        obs.tag_if(s.is_empty(), "empty");
        obs.tag_if(!s.is_empty() && words.is_empty(), "only-whitespace");
        obs.tag_if(s.chars().next().is_some_and(char::is_whitespace), "leading-whitespace");
        obs.tag_if(s.chars().last().is_some_and(char::is_whitespace), "trailing-whitespace");
        obs.tag_if(
            s.chars().any(|ch| ch.is_whitespace() && !ch.is_ascii()),
            "non-ascii-whitespace",
        );
        obs.tag_if(s.contains("\r\n"), "crlf");
        obs.tag_if(
            s.chars().any(|ch| gen::ZERO_WIDTH.iter().any(|z| z.starts_with(ch))),
            "zero-width-non-space",
        );
        obs.tag_if(
            g && chars.iter().any(|x| x.chars().count() > 1 && !gen::is_ws(x)),
            "multi-code-point-cluster",
        );
        obs.max("words", words.len() as u64);
        obs.note(json!({"words": words.len(), "characters": chars.len()}));
    }
}
