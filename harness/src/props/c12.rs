//! C12 — edit distance equals the reference metric and operations() is a minimal script.
use crate::core::*;
use crate::gen::{self, chars_of, is_ws};
use rand::seq::IndexedRandom;
use rand::Rng as _;
use serde::{Deserialize, Serialize};
use serde_json::json;
use std::collections::HashMap;
use text_utils::edit::{self, EditOperation};

pub struct C12;

#[derive(Serialize, Deserialize, Clone, Debug)]
pub struct Case {
    pub a: String,
    pub b: String,
    pub graphemes: bool,
    pub with_swap: bool,
    pub sido: bool,
}

/// reference: restricted Damerau-Levenshtein (optimal string alignment), top-down with memo
struct Ref<'a> {
    a: &'a [&'a str],
    b: &'a [&'a str],
    swap: bool,
    sido: bool,
    memo: HashMap<(usize, usize), usize>,
}

impl Ref<'_> {
    fn d(&mut self, i: usize, j: usize) -> usize {
        if i == 0 {
            return j;
        }
        if j == 0 {
            return i;
        }
        if let Some(v) = self.memo.get(&(i, j)) {
            return *v;
        }
        let mut best = self.d(i - 1, j) + 1;
        best = best.min(self.d(i, j - 1) + 1);
        let (x, y) = (self.a[i - 1], self.b[j - 1]);
        if x == y {
            best = best.min(self.d(i - 1, j - 1));
        } else if !self.sido || (!is_ws(x) && !is_ws(y)) {
            best = best.min(self.d(i - 1, j - 1) + 1);
        }
        if self.swap
            && i > 1
            && j > 1
            && x == self.b[j - 2]
            && self.a[i - 2] == y
            && (!self.sido || (!is_ws(x) && !is_ws(self.a[i - 2])))
        {
            best = best.min(self.d(i - 2, j - 2) + 1);
        }
        self.memo.insert((i, j), best);
        best
    }
}

pub fn ref_distance(a: &[&str], b: &[&str], swap: bool, sido: bool) -> usize {
    let mut r = Ref {
        a,
        b,
        swap,
        sido,
        memo: HashMap::new(),
    };
    r.d(a.len(), b.len())
}

/// the same recurrence bottom-up over a full table (no recursion, no hashing): the reference of
/// the `large` lane. Returns the last row: entry k is the distance between a and b[..k].
pub fn ref_last_row(a: &[&str], b: &[&str], swap: bool, sido: bool) -> Vec<usize> {
    let (n, m) = (a.len(), b.len());
    let w = m + 1;
    let mut t = vec![0u32; (n + 1) * w];
    for j in 0..=m {
        t[j] = j as u32;
    }
    for i in 1..=n {
        t[i * w] = i as u32;
        for j in 1..=m {
            let (x, y) = (a[i - 1], b[j - 1]);
            let mut best = t[(i - 1) * w + j] + 1;
            best = best.min(t[i * w + j - 1] + 1);
            if x == y {
                best = best.min(t[(i - 1) * w + j - 1]);
            } else if !sido || (!is_ws(x) && !is_ws(y)) {
                best = best.min(t[(i - 1) * w + j - 1] + 1);
            }
            if swap
                && i > 1
                && j > 1
                && x == b[j - 2]
                && a[i - 2] == y
                && (!sido || (!is_ws(x) && !is_ws(a[i - 2])))
            {
                best = best.min(t[(i - 2) * w + j - 2] + 1);
            }
            t[i * w + j] = best;
        }
    }
    t[n * w..].iter().map(|v| *v as usize).collect()
}

/// pairs above this many matrix cells are judged with the bottom-up reference
const BIG_CELLS: usize = 4096;

fn gen_string(rng: &mut Rng, alpha: &[&str], long: bool) -> String {
    let n = if gen::scale() > 1 {
        // `large` lane: 50 - 1500 symbols
        rng.random_range(50..=gen::sc(6).max(50))
    } else if long {
        rng.random_range(10..=40)
    } else {
        rng.random_range(0..=9)
    };
    (0..n).map(|_| *alpha.choose(rng).unwrap()).collect()
}

impl Prop for C12 {
    type Case = Case;
    const ID: &'static str = "C12";

    fn lanes(tier: Tier) -> Vec<Lane> {
        vec![
            Lane::new("main", tier.pick(1_000_000, 12_000_000))
                .cap(tier.pick(120, 900))
                .floor(tier.pick(10_000, 200_000)),
            // pairs of 50 - 1500 symbols (up to 2.25 M matrix cells; b a mutation of a with up to
            // |a|/12 edits in 60%), and one side of 65 000 - 70 000 symbols against 0 - 9
            Lane::new("large", tier.pick(800, 24_000))
                .cap(tier.pick(150, 1200))
                .floor(tier.pick(60, 1_500)),
        ]
    }

    fn rule() -> &'static str {
        "pairs of strings over a 2-5 symbol alphabet (always a space; optionally a 2-byte letter, a \
         two-code-point grapheme, U+00A0) of length 0-9 (3%: 10-40), one is often a mutation of the \
         other (transpositions, whitespace edits); x use_graphemes x with_swap x \
         spaces_insert_delete_only. Every case runs distance (plain+normalised), prefix_distance, \
         distances and operations against an independent memoised top-down restricted-OSA reference. \
         distinct = hash of the case; non-trivial = reference distance >= 2 and (transpositions or \
         the whitespace restriction change the value relative to plain Levenshtein). Lane large: pairs of \
         50-1500 symbols (b independent or a with up to |a|/12 edits), 3%: one side of 65 000-70 000 \
         symbols against 0-9; pairs above 4096 matrix cells are judged with a bottom-up full-table \
         version of the same recurrence (class bottom-up-reference; maxima longer_side, matrix_cells)."
    }

    fn assumptions() -> Vec<&'static str> {
        vec![
            "character segmentation (code points / extended grapheme clusters) is taken from unicode-segmentation in the oracle as in the repo; the oracle's independence is in the dynamic programme",
            "normalised prefix_distance is not part of the statement and is not judged",
        ]
    }

    fn generate(rng: &mut Rng, _tier: Tier, lane: &str) -> Case {
        let mut alpha: Vec<&str> = vec!["a", "b", " "];
        if rng.random_bool(0.5) {
            alpha.push("ä");
        }
        if rng.random_bool(0.35) {
            alpha.push("e\u{301}");
        }
        if rng.random_bool(0.2) {
            alpha.push("\u{a0}");
        }
        if rng.random_bool(0.2) {
            alpha.push("c");
        }
        if rng.random_bool(0.15) {
            // any code point of the whole-code-space sample (combining marks, joiners, 4-byte
            // characters, Hangul jamo ...): in grapheme mode it may merge with its neighbours
            let t = gen::scalars();
            alpha.push(t[rng.random_range(0..t.len())].as_str());
        }
        if rng.random_bool(0.1) {
            alpha.retain(|c| *c != "b");
        }
        // (under Miri a pair of 40-symbol strings costs minutes: the interpreter lane keeps to 0-9)
        let long = rng.random_range(0..100) < 3 && lane != "miri";
        if gen::scale() == 250 && rng.random_bool(0.3) {
            // one side beyond 2^16 symbols against a short one (either order)
            let n = rng.random_range(65_000..=70_000);
            let x: String = (0..n).map(|_| *alpha.choose(rng).unwrap()).collect();
            let y: String = (0..rng.random_range(0..=9)).map(|_| *alpha.choose(rng).unwrap()).collect();
            let (a, b) = if rng.random_bool(0.5) { (x, y) } else { (y, x) };
            return Case {
                a,
                b,
                graphemes: rng.random_bool(0.5),
                with_swap: rng.random_bool(0.6),
                sido: rng.random_bool(0.5),
            };
        }
        let a = gen_string(rng, &alpha, long);
        let b = match rng.random_range(0..10) {
            0..=3 => gen_string(rng, &alpha, long),
            _ => {
                // mutate a: a few random edits, biased towards transpositions and whitespace edits
                let mut cs: Vec<String> = chars_of(&a, false).iter().map(|s| s.to_string()).collect();
                let k = rng.random_range(0..=4.max(cs.len() / 12));
                for _ in 0..k {
                    let n = cs.len();
                    match rng.random_range(0..5) {
                        0 if n >= 2 => {
                            let i = rng.random_range(0..n - 1);
                            cs.swap(i, i + 1);
                        }
                        1 if n >= 1 => {
                            let i = rng.random_range(0..n);
                            cs.remove(i);
                        }
                        2 => {
                            let i = rng.random_range(0..=n);
                            cs.insert(i, alpha.choose(rng).unwrap().to_string());
                        }
                        3 => {
                            let i = rng.random_range(0..=n);
                            cs.insert(i, " ".to_string());
                        }
                        _ if n >= 1 => {
                            let i = rng.random_range(0..n);
                            cs[i] = alpha.choose(rng).unwrap().to_string();
                        }
                        _ => {}
                    }
                }
                cs.concat()
            }
        };
        Case {
            a,
            b,
            graphemes: rng.random_bool(0.5),
            with_swap: rng.random_bool(0.6),
            sido: rng.random_bool(0.5),
        }
    }

    fn check(c: &Case, obs: &mut Obs) {
        // history round (core::history_round): the same inputs with `graphemes` flipped in between
        if history_round(
            c,
            obs,
            |c| {
                let mut v = c.clone();
                v.graphemes = !v.graphemes;
                v
            },
            Self::check,
        ) {
            return;
        }
        let a = chars_of(&c.a, c.graphemes);
        let b = chars_of(&c.b, c.graphemes);
        let big = a.len() * b.len() > BIG_CELLS;
        let last_row = if big { ref_last_row(&a, &b, c.with_swap, c.sido) } else { vec![] };
        let rd = |x: &[&str], y: &[&str], swap: bool, sido: bool| -> usize {
            if x.len() * y.len() > BIG_CELLS {
                ref_last_row(x, y, swap, sido).last().copied().unwrap_or(0)
            } else {
                ref_distance(x, y, swap, sido)
            }
        };
        let r = if big { last_row[b.len()] } else { ref_distance(&a, &b, c.with_swap, c.sido) };
        let lev = rd(&a, &b, false, false);
        obs.nontrivial_if(r >= 2 && r != lev);
        obs.tag_if(big, "bottom-up-reference");
        obs.max("longer_side", a.len().max(b.len()) as u64);
        obs.max("matrix_cells", ((a.len() + 1) * (b.len() + 1)) as u64);
        if !big {
            obs.tag_if(c.with_swap && r != ref_distance(&a, &b, false, c.sido), "swap-matters");
            obs.tag_if(c.sido && r != ref_distance(&a, &b, c.with_swap, false), "whitespace-restriction-matters");
        }
        obs.tag_if(a.is_empty() || b.is_empty(), "empty-side");
        obs.tag_if(a.len() >= 10, "long");

        // distance
        let d = edit::distance(&c.a, &c.b, c.graphemes, c.with_swap, c.sido, false);
        obs.check(d == r as f64, "distance/value", || {
            format!("distance={d} reference={r}")
        });
        let dn = edit::distance(&c.a, &c.b, c.graphemes, c.with_swap, c.sido, true);
        let maxlen = a.len().max(b.len());
        let expect_n = if maxlen == 0 { 0.0 } else { r as f64 / maxlen as f64 };
        obs.check(
            dn.is_finite() && (dn - expect_n).abs() < 1e-12,
            "distance/normalized-value",
            || format!("normalized distance={dn} expected={expect_n} (ref {r} / max len {maxlen})"),
        );
        if dn.is_finite() && !(0.0..=1.0).contains(&dn) {
            // without the whitespace restriction the distance never exceeds the longer length, so
            // the two situations get different signatures
            obs.fail(
                if c.sido {
                    "distance/normalized-range/spaces_insert_delete_only"
                } else {
                    "distance/normalized-range"
                },
                format!("normalized distance={dn} outside [0,1] (ref {r} / max len {maxlen})"),
            );
        }
        if c.a == c.b {
            obs.check(d == 0.0 && dn == 0.0, "distance/equal-strings-nonzero", || {
                format!("equal strings: distance={d} normalized={dn}")
            });
        }
        // prefix distance
        let pd = edit::prefix_distance(&c.a, &c.b, c.graphemes, c.with_swap, c.sido, false);
        let rp = if big {
            last_row.iter().copied().min().unwrap_or(0)
        } else {
            (0..=b.len())
                .map(|k| ref_distance(&a, &b[..k], c.with_swap, c.sido))
                .min()
                .unwrap_or(0)
        };
        obs.check(pd == rp as f64, "prefix_distance/value", || {
            format!("prefix_distance={pd} reference={rp}")
        });
        // distances (element-wise, and length mismatch is an error)
        match edit::distances(
            &[c.a.as_str(), c.b.as_str()],
            &[c.b.as_str(), c.a.as_str()],
            c.graphemes,
            c.with_swap,
            c.sido,
            false,
        ) {
            Ok(v) => {
                let rr = rd(&b, &a, c.with_swap, c.sido);
                obs.check(
                    v.len() == 2 && v[0] == r as f64 && v[1] == rr as f64,
                    "distances/value",
                    || format!("distances={v:?} reference=[{r},{rr}]"),
                );
            }
            Err(e) => obs.fail("distances/err", format!("{e}")),
        }
        if edit::distances(&[c.a.as_str()], &[c.b.as_str(), c.a.as_str()], true, true, false, false)
            .is_ok()
        {
            obs.fail("distances/length-mismatch-accepted", "expected Err");
        }
        // operations: sorted script that turns a into b, of length == distance
        let ops = edit::operations(&c.a, &c.b, c.graphemes, c.with_swap, c.sido);
        obs.check(ops.len() == r, "operations/length", || {
            format!("script length {} != reference distance {r}: {ops:?}", ops.len())
        });
        let sorted = ops.windows(2).all(|w| w[0].1 <= w[1].1 && w[0].2 <= w[1].2);
        obs.check(sorted, "operations/not-sorted", || format!("{ops:?}"));
        let mut out: Vec<&str> = vec![];
        let mut cur = 0usize;
        let mut ok = true;
        for (op, i, j) in &ops {
            let (i, j) = (*i, *j);
            if i < cur || i > a.len() {
                ok = false;
                break;
            }
            out.extend_from_slice(&a[cur..i]);
            cur = i;
            match op {
                EditOperation::Insert => {
                    if j >= b.len() {
                        ok = false;
                        break;
                    }
                    out.push(b[j]);
                }
                EditOperation::Delete => {
                    if i >= a.len() {
                        ok = false;
                        break;
                    }
                    cur = i + 1;
                }
                EditOperation::Replace => {
                    if i >= a.len() || j >= b.len() {
                        ok = false;
                        break;
                    }
                    if c.sido && (is_ws(a[i]) || is_ws(b[j])) {
                        obs.fail("operations/whitespace-replaced", format!("{ops:?}"));
                    }
                    out.push(b[j]);
                    cur = i + 1;
                }
                EditOperation::Swap => {
                    if i + 1 >= a.len() {
                        ok = false;
                        break;
                    }
                    if !c.with_swap {
                        obs.fail("operations/swap-when-disabled", format!("{ops:?}"));
                    }
                    if c.sido && (is_ws(a[i]) || is_ws(a[i + 1])) {
                        obs.fail("operations/whitespace-swapped", format!("{ops:?}"));
                    }
                    out.push(a[i + 1]);
                    out.push(a[i]);
                    cur = i + 2;
                }
            }
        }
        if ok {
            out.extend_from_slice(&a[cur.min(a.len())..]);
        }
        obs.check(ok && out.concat() == c.b, "operations/does-not-yield-b", || {
            format!("applying {ops:?} to a gives {:?}, expected {:?}", out.concat(), c.b)
        });
        obs.note(json!({"reference_distance": r, "levenshtein": lev, "script_len": ops.len()}));
    }
}
