//! C02 — BPE tokenization is lossless for every well-formed merge table.
//!
//! The case type, the merge table generators (i)-(iii), the string generator, the reference BPE
//! (used here only for the non-trivial rule and the coverage tags) and the construction of the
//! real tokenizer are shared with C03 and live in c03.rs.
use super::c03::{
    build_tokenizer, effective_table, gen_case, kind_tag, ref_bpe, setup, show_table, show_toks, Case,
};
use crate::core::*;
use serde_json::json;
use text_utils::tokenization::Tokenize;

pub struct C02;

impl Prop for C02 {
    type Case = Case;
    const ID: &'static str = "C02";
    const RESETS_PANIC_HOOK: bool = true;

    fn lanes(tier: Tier) -> Vec<Lane> {
        vec![
            Lane::new("main", tier.pick(48_000, 800_000))
                .cap(tier.pick(120, 1200))
                .floor(tier.pick(16_000, 200_000)),
            // as in C03: every length 10 / 50 / 250 times bigger
            Lane::new("large", tier.pick(1_600, 32_000))
                .cap(tier.pick(150, 1200))
                .floor(tier.pick(100, 2_000)),
        ]
    }

    fn rule() -> &'static str {
        "a case = one well-formed merge table + 1-2 tokenizer configs (max_vocab_size None / \
         256+k+|specials| / below 256 / above the table; 4-7 special tokens; prefix / suffix lists of \
         0-2 of them) + 5-24 strings. Tables as in C03: (i) random concatenations over the bytes of a \
         tiny alphabet, (i') guided by the segmentation of sample words, (ii) adversarial substrings \
         of pattern words incl. entries that split a UTF-8 character or contain interior whitespace, \
         (iii) trained by the repo's train_bpe on a Zipfian corpus (few merges relative to the \
         corpus). Strings: over the table's alphabet and built from table entries with leading / \
         multiple / trailing whitespace (all White_Space code points occur), 25% general Unicode \
         strings (all pools of gen.rs incl. special-token spellings), whitespace-only and empty \
         strings. Every (config, string): ids = tokenize(s, true); de_tokenize(ids, true) must equal \
         s.trim_end() (= s when s has no trailing whitespace); every id < vocab_size() and has an \
         entry in get_vocab(); the get_vocab() byte strings of the non-special ids concatenate to \
         exactly the decoded bytes and are valid UTF-8. non-trivial = the reference BPE performs >= 1 \
         merge on some string of the case."
    }

    fn assumptions() -> Vec<&'static str> {
        vec![
            "merge files are written with the repo's SerializeMsgPack::save and trained tables are read back with SerializeMsgPack::load (the file format is not the subject)",
            "trained tables are used only if they are well-formed (C19 judges the trainer); a malformed one makes the run inconclusive, it is never judged",
            "an id is special iff it is >= 256 + the number of table entries that survive max_vocab_size (oracle side: ids < m - |special tokens| - 256)",
            "str::trim_end trims exactly the White_Space code points (documented behaviour of std)",
        ]
    }

    fn generate(rng: &mut Rng, _tier: Tier, _lane: &str) -> Case {
        gen_case(rng, 0.25, 0.35)
    }

    fn check(c: &Case, obs: &mut Obs) {
        let Some(env) = setup(&c.table, "c02", obs) else {
            return;
        };
        obs.tag(kind_tag(&env.kind));
        obs.max("table_entries", env.entries.len() as u64);
        let (mut evaluated, mut with_merge, mut ref_merges) = (0u64, 0u64, 0u64);
        for cfg in &c.cfgs {
            let table = effective_table(&env.entries, cfg);
            obs.tag_if(cfg.max_vocab_size.is_some(), "cfg/max_vocab_size");
            obs.tag_if(table.len() < env.entries.len(), "cfg/table-truncated");
            obs.tag_if(!cfg.prefix.is_empty() || !cfg.suffix.is_empty(), "cfg/prefix-or-suffix");
            let Some(tok) = build_tokenizer(&env, cfg, obs) else {
                continue;
            };
            let ctx = |s: &str| {
                format!(
                    "string {s:?} table {} (effective entries {}) max_vocab_size {:?} tokens {:?} prefix {:?} suffix {:?}",
                    show_table(&env.entries),
                    table.len(),
                    cfg.max_vocab_size,
                    cfg.tokens,
                    cfg.prefix,
                    cfg.suffix
                )
            };
            let vocab_size = tok.vocab_size();
            let vocab = match guarded(obs, "get_vocab", || tok.get_vocab()) {
                Some(Ok(v)) => v,
                Some(Err(e)) => {
                    obs.fail("get_vocab/err", format!("{e}; {}", ctx("")));
                    continue;
                }
                None => continue,
            };
            let first_special = 256 + table.len() as u32;
            for s in &c.strings {
                let r = ref_bpe(s, &table);
                let trailing = s.ends_with(char::is_whitespace);
                let expected = s.trim_end();
                obs.tag_if(trailing, "string/trailing-whitespace");
                obs.tag_if(expected.is_empty(), "string/no-word");
                obs.tag_if(s.starts_with(char::is_whitespace) && !expected.is_empty(), "string/leading-whitespace");
                obs.tag_if(expected.chars().any(|c| c.is_whitespace() && c != ' '), "string/non-ascii-or-control-whitespace-inside");
                obs.tag_if(!expected.is_ascii(), "string/multi-byte");
                obs.tag_if(cfg.tokens.iter().any(|t| s.contains(t.as_str())), "string/contains-special-spelling");
                obs.tag_if(r.toks.iter().any(|t| t.len() > 1 && std::str::from_utf8(t).is_err()), "token/splits-a-utf8-char");
                // history on the same tokenizer object: the other flag value first (result ignored)
                if hash64(s) % 3 == 0 {
                    let _ = catch(|| tok.tokenize(s, false));
                    obs.tag("history/same-text-other-flag-first");
                }
                let ids = match guarded(obs, "tokenize", || tok.tokenize(s, true)) {
                    Some(Ok(t)) => t.token_ids,
                    Some(Err(e)) => {
                        obs.fail("tokenize/err", format!("tokenize failed: {e}; {}", ctx(s)));
                        continue;
                    }
                    None => continue,
                };
                evaluated += 1;
                if r.merges > 0 {
                    with_merge += 1;
                    ref_merges += r.merges as u64;
                }
                // every id is a vocabulary id
                if let Some(bad) = ids.iter().find(|&&id| id as usize >= vocab_size) {
                    obs.fail(
                        "ids/not-below-vocab_size",
                        format!("id {bad} >= vocab_size {vocab_size} in {ids:?}; {}", ctx(s)),
                    );
                }
                if let Some(bad) = ids.iter().find(|&&id| id as usize >= vocab.len()) {
                    obs.fail(
                        "ids/no-get_vocab-entry",
                        format!("id {bad} has no entry in get_vocab() (len {}) in {ids:?}; {}", vocab.len(), ctx(s)),
                    );
                    continue;
                }
                // decode, special tokens (prefix / suffix) ignored
                let dec = match guarded(obs, "de_tokenize", || tok.de_tokenize(&ids, true)) {
                    Some(Ok(d)) => d,
                    Some(Err(e)) => {
                        obs.fail("de_tokenize/err", format!("de_tokenize({ids:?}, true) failed: {e}; {}", ctx(s)));
                        continue;
                    }
                    None => continue,
                };
                if dec != expected {
                    let sig = if !trailing {
                        "roundtrip/decoded-differs"
                    } else if s.starts_with(dec.as_str()) && s[dec.len()..].chars().all(char::is_whitespace) {
                        // a prefix that differs only by whitespace, but not exactly the trailing run
                        "roundtrip/trailing-whitespace/wrong-cut"
                    } else {
                        "roundtrip/trailing-whitespace/decoded-differs"
                    };
                    obs.fail(sig, format!("decoded {dec:?} expected {expected:?} ids {ids:?}; {}", ctx(s)));
                }
                // the vocabulary byte strings of the non-special ids spell the decoded text
                let body: Vec<u32> = ids.iter().copied().filter(|&id| id < first_special).collect();
                let toks: Vec<Vec<u8>> = body.iter().map(|&id| vocab[id as usize].clone()).collect();
                let cat = toks.concat();
                if cat != dec.as_bytes() {
                    obs.fail(
                        "vocab/token-bytes-differ-from-decoded",
                        format!("get_vocab() tokens {} of ids {body:?} do not concatenate to decoded {dec:?}; {}", show_toks(&toks), ctx(s)),
                    );
                }
                if std::str::from_utf8(&cat).is_err() {
                    obs.fail(
                        "vocab/token-bytes-not-utf8",
                        format!("get_vocab() tokens {} of ids {body:?}; {}", show_toks(&toks), ctx(s)),
                    );
                }
                // the specials that tokenize adds must vanish from the decoded text as well when
                // only the body is decoded (special tokens ignored on both sides)
                if body.len() != ids.len() {
                    obs.tag("ids/with-special-ids");
                    match guarded(obs, "de_tokenize", || tok.de_tokenize(&body, true)) {
                        Some(Ok(d)) => {
                            obs.check(d == dec, "roundtrip/special-ids-change-decoded-text", || {
                                format!("decode(all ids {ids:?}) = {dec:?} but decode(body {body:?}) = {d:?}; {}", ctx(s))
                            });
                        }
                        Some(Err(e)) => obs.fail("de_tokenize/err", format!("de_tokenize({body:?}, true) failed: {e}; {}", ctx(s))),
                        None => {}
                    }
                }
            }
        }
        obs.nontrivial_if(with_merge >= 1);
        obs.add("tokenizations", evaluated);
        obs.add("tokenizations_with_merge", with_merge);
        obs.add("reference_merges", ref_merges);
        obs.note(json!({
            "kind": env.kind,
            "table": show_table(&env.entries),
            "tokenizations": evaluated,
            "tokenizations_with_merge": with_merge,
            "reference_merges": ref_merges,
        }));
    }
}
