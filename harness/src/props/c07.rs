//! C07 — the multi-source generator yields every item exactly once and terminates.
use crate::core::*;
use crate::gen;
use anyhow::anyhow;
use rand::Rng as _;
use serde::{Deserialize, Serialize};
use serde_json::json;
use text_utils::data::loading::{GenerationStrategy, MultiTrainDataGenerator, TrainDataGenerator};
use text_utils::data::TrainData;

pub struct C07;

#[derive(Serialize, Deserialize, Clone, Debug)]
pub struct Case {
    /// sources[s][k] == true: item k of source s is an Err(..), false: Ok(TrainData);
    /// both carry the tag "s<s>_<k>"
    pub sources: Vec<Vec<bool>>,
    /// "sequential" | "interleaved" | "weighted"
    pub strategy: String,
    pub seed: u64,
    /// seed = None (OS entropy): everything but the reproducibility of the weighted order is judged
    #[serde(default)]
    pub no_seed: bool,
}

/// one yielded element: (reported source index, tag, was an Err)
type Out = (usize, String, bool);

struct Run {
    len: usize,
    out: Vec<Out>,
    /// None was returned (false: cut off after more items than exist)
    ended: bool,
    some_after_none: usize,
}

fn strategy_of(c: &Case) -> GenerationStrategy {
    match c.strategy.as_str() {
        "sequential" => GenerationStrategy::Sequential,
        "interleaved" => GenerationStrategy::Interleaved,
        _ => GenerationStrategy::Weighted,
    }
}

fn build(c: &Case) -> Vec<TrainDataGenerator> {
    c.sources
        .iter()
        .enumerate()
        .map(|(s, src)| {
            let items: Vec<anyhow::Result<TrainData>> = src
                .iter()
                .enumerate()
                .map(|(k, is_err)| {
                    let tag = format!("s{s}_{k}");
                    if *is_err {
                        Err(anyhow!(tag))
                    } else {
                        Ok(TrainData::new(tag, None))
                    }
                })
                .collect();
            Box::new(items.into_iter()) as TrainDataGenerator
        })
        .collect()
}

/// Err(message): the constructor refused the sources
fn run(c: &Case, seed: u64) -> Result<Run, String> {
    let total: usize = c.sources.iter().map(|s| s.len()).sum();
    let mut g = MultiTrainDataGenerator::new(build(c), strategy_of(c), if c.no_seed { None } else { Some(seed) })
        .map_err(|e| format!("{e}"))?;
    let len = g.len();
    let mut out = vec![];
    let mut ended = false;
    // more than `total` items proves a duplicate or an invented item, so the collection can stop
    // there; a loop inside next() is left to the supervisor's CPU budget
    while out.len() <= total + 1 {
        match g.next() {
            Some((Ok(d), idx)) => out.push((idx, d.verif_input().to_string(), false)),
            Some((Err(e), idx)) => out.push((idx, format!("{e}"), true)),
            None => {
                ended = true;
                break;
            }
        }
    }
    let mut some_after_none = 0;
    if ended {
        for _ in 0..3 {
            if g.next().is_some() {
                some_after_none += 1;
            }
        }
    }
    Ok(Run {
        len,
        out,
        ended,
        some_after_none,
    })
}

fn parse_tag(t: &str) -> Option<(usize, usize)> {
    let (s, k) = t.strip_prefix('s')?.split_once('_')?;
    Some((s.parse().ok()?, k.parse().ok()?))
}

/// reference for interleaved: passes over the sources in index order, each pass takes one item
/// from every source that still has one
fn ref_round_robin(lens: &[usize]) -> Vec<(usize, usize)> {
    let mut out = vec![];
    let rounds = lens.iter().copied().max().unwrap_or(0);
    for k in 0..rounds {
        for (s, l) in lens.iter().enumerate() {
            if k < *l {
                out.push((s, k));
            }
        }
    }
    out
}

fn gen_lens(rng: &mut Rng, tier: Tier) -> Vec<usize> {
    let n = match rng.random_range(0..100) {
        0..=11 => 1,
        _ => rng.random_range(2..=6),
    };
    if gen::scale() > 1 {
        // `large` lane: many short sources (beyond 2^8) or few long ones (beyond 2^16)
        return if rng.random_bool(0.5) {
            let n = rng.random_range(7..=gen::sc(6).max(300));
            (0..n).map(|_| rng.random_range(0..=3)).collect()
        } else {
            let n = rng.random_range(1..=4);
            (0..n).map(|_| rng.random_range(0..=gen::sc(300))).collect()
        };
    }
    if tier == Tier::Thorough && rng.random_bool(0.05) {
        // larger instances: up to 12 sources with 0-60 items
        let n = rng.random_range(1..=12);
        return (0..n).map(|_| rng.random_range(0..=60)).collect();
    }
    match rng.random_range(0..8) {
        0 => {
            let l = rng.random_range(0..=12);
            vec![l; n]
        }
        1 => {
            // strictly unequal
            let start = rng.random_range(0..=2);
            let step = rng.random_range(1..=2);
            let mut v: Vec<usize> = (0..n).map(|i| start + i * step).collect();
            if rng.random_bool(0.5) {
                v.reverse();
            }
            v
        }
        2 => {
            // one long among short
            let mut v: Vec<usize> = (0..n).map(|_| rng.random_range(0..=2)).collect();
            let i = rng.random_range(0..n);
            v[i] = rng.random_range(6..=12);
            v
        }
        3 => {
            // leading / trailing / inner empty sources
            let mut v: Vec<usize> = (0..n).map(|_| rng.random_range(1..=6)).collect();
            match rng.random_range(0..3) {
                0 => v[0] = 0,
                1 => v[n - 1] = 0,
                _ => {
                    for l in v.iter_mut() {
                        if rng.random_bool(0.5) {
                            *l = 0;
                        }
                    }
                }
            }
            v
        }
        _ => (0..n).map(|_| rng.random_range(0..=12)).collect(),
    }
}

impl Prop for C07 {
    type Case = Case;
    const ID: &'static str = "C07";

    fn lanes(tier: Tier) -> Vec<Lane> {
        vec![
            Lane::new("main", tier.pick(1_500_000, 8_000_000))
                .cap(tier.pick(150, 1200))
                .floor(tier.pick(100_000, 600_000)),
            // 7 - 1500 short sources, or 1 - 4 sources of up to 75 000 items
            Lane::new("large", tier.pick(3_000, 60_000))
                .cap(tier.pick(150, 1200))
                .floor(tier.pick(200, 4_000)),
        ]
    }

    fn rule() -> &'static str {
        "1 source (12%) or 2-6 sources with lengths 0-12 (equal, strictly unequal, one long among \
         short, leading/trailing/inner empty sources, uniform; thorough tier: 5% with up to 12 \
         sources of 0-60 items) x {sequential, interleaved, weighted} \
         x Some(seed); sources are boxed vec::IntoIter of Ok(TrainData) tagged \"s<src>_<k>\" with \
         Err(anyhow) items mixed in (none, 15% or 50% of the items). For weighted the lengths are \
         raised to >= 1 in 85% of the cases (the rest exercises the documented rejection of empty \
         sources). Every case drains the generator (then calls next() three more times) and judges \
         len(), per-source exactly-once and order, the reported source index, Ok/Err kind in place, \
         None stays None; sequential: non-decreasing source indices; interleaved: equality with an \
         independent round-robin reference; weighted: a second run with the same seed is identical \
         (a run with seed+1 is compared and only reported). distinct = hash of the case; \
         non-trivial = the generator was built and (at least two sources of different length, or a \
         single non-empty source under interleaved)."
    }

    fn assumptions() -> Vec<&'static str> {
        vec![
            "seed = None (OS entropy) is run in 2.5% of the cases: exactly-once, order within a source, source index and termination are judged as always, reproducibility of the weighted order only for Some(seed) (a violation found there may not replay)",
            "sources are fused ExactSizeIterators whose len() is exact (vec::IntoIter); sources that under- or over-report their length are outside the statement",
            "weighted + an empty source: an Err from the constructor is documented behaviour and not judged; if the constructor accepts, the run is judged like any other",
            "the empty list of sources is generated with probability 1/200",
            "non-termination inside next() is detected by the supervisor's CPU budget (20 CPU-seconds against a normal cost of a few microseconds)",
        ]
    }

    fn generate(rng: &mut Rng, tier: Tier, _lane: &str) -> Case {
        let strategy = ["sequential", "interleaved", "weighted"][rng.random_range(0..3)];
        let mut lens = gen_lens(rng, tier);
        if rng.random_range(0..200) == 0 {
            // the empty list of sources is a list of sources too: the generator must simply end
            lens.clear();
        }
        if strategy == "weighted" && rng.random_bool(0.85) {
            for l in lens.iter_mut() {
                *l = (*l).max(1);
            }
        }
        let p_err = [0.0, 0.0, 0.15, 0.5][rng.random_range(0..4)];
        let sources = lens
            .iter()
            .map(|l| (0..*l).map(|_| rng.random_bool(p_err)).collect())
            .collect();
        let seed = if rng.random_bool(0.2) {
            rng.random_range(0..4)
        } else {
            rng.random()
        };
        Case {
            sources,
            strategy: strategy.to_string(),
            seed,
            no_seed: rng.random_range(0..40) == 0,
        }
    }

    fn check(c: &Case, obs: &mut Obs) {
        let strat = c.strategy.as_str();
        let lens: Vec<usize> = c.sources.iter().map(|s| s.len()).collect();
        let n = lens.len();
        let total: usize = lens.iter().sum();
        let nonempty = lens.iter().filter(|l| **l > 0).count();
        obs.tag(match strat {
            "sequential" => "strategy:sequential",
            "interleaved" => "strategy:interleaved",
            _ => "strategy:weighted",
        });
        obs.tag_if(n == 1, "single-source");
        obs.tag_if(c.no_seed, "seed-none");
        obs.tag_if(n == 0, "no-sources");
        obs.tag_if(lens.contains(&0), "empty-source");
        obs.tag_if(n >= 2 && lens[0] == 0, "leading-empty-source");
        obs.tag_if(n >= 2 && lens[n - 1] == 0, "trailing-empty-source");
        obs.tag_if(total == 0, "no-items");
        obs.tag_if(n >= 2 && lens.iter().all(|l| *l == lens[0]), "equal-lengths");
        obs.tag_if(c.sources.iter().flatten().any(|e| *e), "err-items");
        // the class of the historical defect: at some point exactly one source has >= 2 items left
        let mut sorted = lens.clone();
        sorted.sort();
        let single_tail = match n {
            0 => 0,
            1 => sorted[0],
            _ => sorted[n - 1] - sorted[n - 2],
        };
        obs.tag_if(strat == "interleaved" && single_tail >= 2, "interleaved-single-source-tail");

        let Some(res) = guarded(obs, strat, || run(c, c.seed)) else {
            return;
        };
        let r = match res {
            Ok(r) => r,
            Err(msg) => {
                if strat == "weighted" && lens.contains(&0) {
                    // documented: weighted needs a positive length for every source
                    obs.tag("weighted-empty-source-rejected");
                } else {
                    obs.fail(
                        format!("{strat}/constructor-err"),
                        format!("lengths={lens:?}: {msg}"),
                    );
                }
                return;
            }
        };
        let describe = || {
            format!(
                "strategy={strat} seed={} lengths={lens:?} yielded={:?}",
                c.seed,
                r.out.iter().map(|(i, t, e)| format!("{t}@{i}{}", if *e { "!" } else { "" })).collect::<Vec<_>>()
            )
        };
        obs.check(r.len == total, &format!("{strat}/len"), || {
            format!("len()={} but the sources hold {total} items; lengths={lens:?}", r.len)
        });
        if !r.ended {
            obs.fail(
                format!("{strat}/more-items-than-sources-hold"),
                format!("no None after {} items; {}", r.out.len(), describe()),
            );
        }
        obs.check(r.some_after_none == 0, &format!("{strat}/some-after-none"), || {
            format!("{} of 3 next() calls after None returned an item; {}", r.some_after_none, describe())
        });
        // exactly once, per-source order, source index, kind
        let mut next_k = vec![0usize; n];
        let mut order: Vec<(usize, usize)> = vec![];
        for (idx, tag, is_err) in &r.out {
            let Some((s, k)) = parse_tag(tag).filter(|(s, k)| *s < n && *k < lens[*s]) else {
                obs.fail(format!("{strat}/foreign-item"), format!("item {tag:?}; {}", describe()));
                continue;
            };
            order.push((s, k));
            obs.check(*idx == s, &format!("{strat}/wrong-source-index"), || {
                format!("item {tag} reported with source index {idx}; {}", describe())
            });
            obs.check(*is_err == c.sources[s][k], &format!("{strat}/ok-err-kind-changed"), || {
                format!("item {tag} is_err={is_err}; {}", describe())
            });
            if k == next_k[s] {
                next_k[s] += 1;
            } else if k < next_k[s] {
                obs.fail(format!("{strat}/item-duplicated"), format!("item {tag} again; {}", describe()));
            } else {
                obs.fail(
                    format!("{strat}/per-source-order"),
                    format!("item {tag} before s{s}_{}; {}", next_k[s], describe()),
                );
                next_k[s] = k + 1;
            }
        }
        if r.ended {
            let lost: Vec<String> = (0..n)
                .filter(|s| next_k[*s] < lens[*s])
                .map(|s| format!("s{s}_{}..", next_k[s]))
                .collect();
            obs.check(lost.is_empty() && r.out.len() == total, &format!("{strat}/item-lost"), || {
                format!("None after {} of {total} items, missing {lost:?}; {}", r.out.len(), describe())
            });
        }
        match strat {
            "sequential" => {
                obs.check(
                    r.out.windows(2).all(|w| w[0].0 <= w[1].0),
                    "sequential/sources-not-one-after-another",
                    describe,
                );
            }
            "interleaved" => {
                let want = ref_round_robin(&lens);
                obs.check(order == want, "interleaved/not-round-robin", || {
                    format!("expected order {want:?}; {}", describe())
                });
            }
            _ => {
                if let Some(Ok(r2)) = guarded(obs, strat, || run(c, c.seed)) {
                    obs.check(c.no_seed || r2.out == r.out, "weighted/not-reproducible", || {
                        format!("second run with the same seed yielded {:?}; {}", r2.out, describe())
                    });
                }
                // reported, not judged: does the seed influence the order at all
                if let Some(Ok(r3)) = guarded(obs, strat, || run(c, c.seed.wrapping_add(1))) {
                    obs.tag_if(r3.out != r.out, "weighted-other-seed-other-order");
                    obs.tag_if(r3.out == r.out && nonempty >= 2 && total >= 6, "weighted-other-seed-same-order");
                }
                obs.tag_if(r.out.windows(2).any(|w| w[0].0 > w[1].0), "weighted-source-index-decreases");
            }
        }
        let mut distinct_lens = lens.clone();
        distinct_lens.sort();
        distinct_lens.dedup();
        obs.nontrivial_if(
            (n >= 2 && distinct_lens.len() >= 2) || (strat == "interleaved" && n == 1 && total >= 1),
        );
        obs.add("items", r.out.len() as u64);
        obs.max("max-sources", n as u64);
        obs.max("max-items", total as u64);
        obs.note(json!({
            "strategy": strat,
            "lengths": lens,
            "yielded": r.out.len(),
            "err_items": r.out.iter().filter(|o| o.2).count(),
            "first_sources": r.out.iter().take(12).map(|o| o.0).collect::<Vec<_>>(),
        }));
    }
}
