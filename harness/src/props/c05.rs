//! C05 — the threaded pipe is observationally a sequential map, under every schedule.
//!
//! Lane "sched": the real worker threads and the consumer are serialised at the verif schedule
//! points by the controller of sched.rs, which picks the interleaving (random walk, PCT-style
//! priorities, consumer-first/last, starve-one). Lane "chaos": free running threads with seeded
//! delays at the points, many workers / items, slow items, consumer pauses. (Lane "miri": see
//! sanitize.rs.)
use crate::core::*;
use crate::sched::{self, Mode, Pt, RunEnd, Strategy};
use rand::Rng as _;
use serde::{Deserialize, Serialize};
use serde_json::json;
use std::sync::atomic::{AtomicBool, AtomicU32, AtomicUsize, Ordering};
use std::sync::{Arc, Mutex};
use std::time::{Duration, Instant};
use text_utils::data::loading::PipelineIterator;

pub struct C05;

#[derive(Serialize, Deserialize, Clone, Debug)]
pub struct Case {
    pub lane: String,
    pub threads: u8,
    pub n: usize,
    pub strategy: Strategy,
    pub sseed: u64,
    pub chaos_level: u8,
    /// (item index, busy microseconds) — processing cost of individual items (chaos lane)
    pub slow: Vec<(usize, u32)>,
    /// consumer sleeps this many microseconds after every `pause_every` items (0 = never)
    pub pause_every: usize,
    pub pause_us: u32,
    /// (item index, busy microseconds) spent inside the upstream iterator's next(), i.e. while the
    /// worker holds the mutex (chaos lane)
    #[serde(default)]
    pub slow_src: Vec<(usize, u32)>,
    /// (workers, items): a second, independent pipe that is consumed concurrently in another thread
    /// (state that is accidentally shared between pipe instances only shows with two of them alive)
    #[serde(default)]
    pub second_pipe: Option<(u8, usize)>,
    /// robustness class outside the statement's sequences: the upstream iterator is not fused, it
    /// answers None once in front of this item and then goes on (the crate's inference loader
    /// builds such a source when a line is invalid)
    #[serde(default)]
    pub gap_at: Option<usize>,
}

pub fn tag(x: usize) -> u64 {
    (x as u64).wrapping_mul(0x9e37_79b9).wrapping_add(17)
}

pub struct Source {
    pub i: usize,
    pub n: usize,
    /// non-fused source: answers None once in front of this item and then goes on
    pub gap: Option<usize>,
    pub pulled: Arc<AtomicUsize>,
    pub dropped: Arc<AtomicBool>,
    pub slow: Vec<(usize, u32)>,
}

impl Iterator for Source {
    type Item = usize;
    fn next(&mut self) -> Option<usize> {
        if self.i >= self.n {
            return None;
        }
        if self.gap == Some(self.i) {
            self.gap = None;
            return None;
        }
        let v = self.i;
        self.i += 1;
        for (i, us) in &self.slow {
            if *i == v {
                busy(*us);
            }
        }
        self.pulled.fetch_add(1, Ordering::SeqCst);
        Some(v)
    }
}

impl Drop for Source {
    fn drop(&mut self) {
        self.dropped.store(true, Ordering::SeqCst);
    }
}

fn busy(us: u32) {
    // long stalls (lane "stall") also busy-wait: a thread that sleeps inside the processing function
    // would be indistinguishable from one that is blocked in a real operation for the stuck detector
    let t = Instant::now();
    while t.elapsed() < Duration::from_micros(us as u64) {
        std::hint::spin_loop();
    }
}

pub struct RunOut {
    pub out: Vec<u64>,
    pub got_none: bool,
    pub extra_none: bool,
}

impl Prop for C05 {
    type Case = Case;
    const ID: &'static str = "C05";
    const RESETS_PANIC_HOOK: bool = true;

    fn lanes(tier: Tier) -> Vec<Lane> {
        // time caps are safety nets (5-10x the expected duration on an idle 16-core machine)
        vec![
            Lane::new("sched", tier.pick(16_000, 1_600_000))
                .cap(tier.pick(120, 1500))
                .hang(None)
                .floor(tier.pick(2_000, 200_000)),
            // a few cases in which one item (or the upstream) stalls for tens of seconds: anything
            // that gives up after a while (a receive / send with a timeout, a bounded spin) ends the
            // iteration early or reorders. One case per shard, the lane lasts as long as the stall.
            Lane::new("stall", tier.pick(3, 6))
                .cap(tier.pick(200, 600))
                .hang(None)
                .shards(tier.pick(3, 6))
                .floor(1),
            Lane::new("chaos", tier.pick(480, 6_000))
                .cap(tier.pick(150, 1500))
                .hang(None)
                .shards(8)
                .floor(tier.pick(40, 3_000)),
            // one pipe carrying 66 000 - 140 000 items (beyond 2^16 and 2^17 tickets), free
            // running with 2 - 8 workers, slow items around the 2^16 boundaries
            // (two shards only: every worker of the repo's pipe spins while it waits for its turn,
            // so many concurrent pipes on a loaded machine starve each other)
            Lane::new("long", tier.pick(6, 48))
                .cap(tier.pick(600, 1500))
                .hang(None)
                .shards(2)
                .floor(tier.pick(2, 12)),
        ]
    }

    fn rule() -> &'static str {
        "lane sched: W in 1..=4 workers, n in 0..=8 uniquely tagged items (thorough: a quarter of the \
         cases with W in 5..=7 and n up to 14), one controller-chosen \
         interleaving of the real worker threads and the consumer at the verif schedule points \
         (before/after ticket take, after compute, turn spin, before/after send, after turn advance, \
         exit; consumer before/after recv) per case, strategies random walk / PCT(d=1..3) / burst (two participants released at once) / \
         consumer-first / consumer-last / starve-one; distinct_interleavings = distinct grant \
         sequences (participant, point). lane chaos: free running, W in {0,1,2,3,4,8,16,64}, n up to \
         3000 (thorough 8000), seeded delays at the points (yield / busy 1-60us / sleep <=1.5ms, \
         boosted in the window between send and turn advance), slow items, slow upstream items, \
         consumer pauses. lane stall: one item or one upstream pull stalls for 33 s (thorough: up to \
         130 s), so that anything with a timeout or a bounded spin shows. lane long: one pipe with \
         66 000-140 000 items (beyond 2^16 / 2^17 tickets), 2-8 free running workers, slow items \
         around the 2^16 boundaries. Oracle in all lanes: output == [f(x0)..f(x_{n-1})] with f injective tags, every item processed exactly once \
         (per-item call counters), next() returns None after the n-th item and keeps returning None, \
         upstream iterator dropped (all workers exited). A state in which every live participant is \
         futile (spins at the same point / sleeps in a real blocking call) is a deadlock violation. \
         non-trivial = W>=2, n>=3 and at least one step where the granted participant was not the \
         first enabled one (sched) resp. W>=2, n>=3 and delays enabled (chaos) resp. W>=2 and n>65536 (long)."
    }

    fn assumptions() -> Vec<&'static str> {
        vec![
            "interleavings are explored at schedule-point granularity with sequentially consistent memory (the code uses SeqCst atomics, a mutex and a channel); weak-memory effects and data races are the Miri lane's job",
            "schedules are sampled, not exhausted",
            "thread blocking is read from /proc/self/task/<tid>/stat",
        ]
    }

    fn generate(rng: &mut Rng, tier: Tier, lane: &str) -> Case {
        if lane == "miri" {
            // tiny configurations: Miri's scheduler picks the interleaving (also inside the spin)
            return Case {
                lane: lane.to_string(),
                threads: rng.random_range(1..=3u8),
                n: rng.random_range(0..=6),
                strategy: Strategy::Random,
                sseed: rng.random(),
                chaos_level: 0,
                slow: vec![],
                pause_every: 0,
                pause_us: 0,
                slow_src: vec![],
                second_pipe: None,
                gap_at: None,
            };
        }
        if lane == "stall" {
            let threads = rng.random_range(1..=4u8);
            let n = rng.random_range(3..=8usize);
            // quick: 33 s; thorough: 33 s, 70 s or 130 s
            let stall_us: u32 = match tier {
                Tier::Quick => 33_000_000,
                Tier::Thorough => *[33_000_000u32, 70_000_000, 130_000_000]
                    .get(rng.random_range(0..3))
                    .unwrap(),
            };
            let at = rng.random_range(0..n);
            let in_upstream = rng.random_bool(0.3);
            return Case {
                lane: lane.to_string(),
                threads,
                n,
                strategy: Strategy::Random,
                sseed: rng.random(),
                chaos_level: 0,
                slow: if in_upstream { vec![] } else { vec![(at, stall_us)] },
                pause_every: 0,
                pause_us: 0,
                slow_src: if in_upstream { vec![(at, stall_us)] } else { vec![] },
                second_pipe: None,
                gap_at: None,
            };
        }
        if lane == "sched" {
            // thorough: also larger configurations (more workers than the channel-full / turn logic
            // is usually seen with, longer inputs)
            let big = tier == Tier::Thorough && rng.random_range(0..4) == 0;
            let threads = if big {
                rng.random_range(5..=7u8)
            } else {
                rng.random_range(1..=4u8)
            };
            let n = match rng.random_range(0..10) {
                0 => rng.random_range(0..=2),
                _ if big => rng.random_range(6..=14),
                _ => rng.random_range(3..=8),
            };
            let strategy = match rng.random_range(0..10) {
                0..=1 => Strategy::Random,
                2..=3 => Strategy::Burst,
                4..=6 => Strategy::Pct(rng.random_range(1..=3)),
                7 => Strategy::ConsumerLast,
                8 => Strategy::ConsumerFirst,
                _ => Strategy::Starve(rng.random_range(0..=threads)),
            };
            Case {
                lane: lane.to_string(),
                threads,
                n,
                strategy,
                sseed: rng.random(),
                chaos_level: 0,
                slow: vec![],
                pause_every: 0,
                pause_us: 0,
                slow_src: vec![],
                second_pipe: if rng.random_range(0..5) == 0 {
                    Some((rng.random_range(1..=3u8), rng.random_range(1..=12usize)))
                } else {
                    None
                },
                gap_at: None,
            }
        } else if lane == "long" {
            let threads = *[2u8, 3, 4, 4, 8].get(rng.random_range(0..5)).unwrap();
            let n = rng.random_range(66_000..=140_000usize);
            let mut slow = vec![];
            for b in [65_536usize, 131_072] {
                for _ in 0..rng.random_range(0..=3) {
                    let at = b - 4 + rng.random_range(0..8);
                    if at < n {
                        slow.push((at, rng.random_range(200..30_000u32)));
                    }
                }
            }
            Case {
                lane: lane.to_string(),
                threads,
                n,
                strategy: Strategy::Random,
                sseed: rng.random(),
                // (injected delays keep the other workers spinning: level 1 only with few workers)
                chaos_level: if threads <= 4 && rng.random_range(0..4) == 0 { 1 } else { 0 },
                slow,
                pause_every: 0,
                pause_us: 0,
                slow_src: vec![],
                second_pipe: None,
                gap_at: None,
            }
        } else {
            let threads = *[0u8, 1, 2, 2, 3, 4, 4, 8, 16, 64]
                .get(rng.random_range(0..10))
                .unwrap();
            let max_n = tier.pick(3000, 8_000);
            let n = match rng.random_range(0..10) {
                0 => rng.random_range(0..=3),
                1..=5 => rng.random_range(3..=60),
                6..=8 => rng.random_range(60..=600),
                _ => rng.random_range(600..=max_n),
            };
            // many spinning workers are expensive on a loaded machine: keep their inputs short
            let n = if threads >= 16 { n.min(400) } else { n };
            let mut slow = vec![];
            if n > 0 {
                for _ in 0..rng.random_range(0..=3) {
                    slow.push((rng.random_range(0..n), rng.random_range(20..3000u32)));
                }
                if rng.random_bool(0.2) {
                    slow.push((n - 1, rng.random_range(200..3000)));
                }
                if rng.random_bool(0.2) {
                    slow.push((0, rng.random_range(200..3000)));
                }
            }
            let pause_every = if rng.random_bool(0.4) {
                rng.random_range(1..=20)
            } else {
                0
            };
            Case {
                lane: lane.to_string(),
                threads,
                n,
                strategy: Strategy::Random,
                sseed: rng.random(),
                chaos_level: rng.random_range(0..=4),
                slow,
                pause_every,
                pause_us: rng.random_range(10..800),
                slow_src: if n > 0 && rng.random_bool(0.3) {
                    (0..rng.random_range(1..=3))
                        .map(|_| (rng.random_range(0..n), rng.random_range(20..1500u32)))
                        .collect()
                } else {
                    vec![]
                },
                second_pipe: if rng.random_range(0..3) == 0 {
                    Some((
                        *[1u8, 2, 3, 4, 8].get(rng.random_range(0..5)).unwrap(),
                        rng.random_range(1..=400usize),
                    ))
                } else {
                    None
                },
                gap_at: if n >= 3 && rng.random_range(0..25) == 0 {
                    Some(rng.random_range(1..n))
                } else {
                    None
                },
            }
        }
    }

    fn check(c: &Case, obs: &mut Obs) {
        if c.lane == "miri" {
            return check_plain(c, obs);
        }
        let s = sched::sched();
        s.ensure_installed();
        let w = c.threads as usize;
        let controlled = c.lane == "sched";
        let mode = if controlled { Mode::Controlled } else { Mode::Chaos };
        s.reset(mode, w, false, w);
        if !controlled {
            s.set_chaos(c.sseed, c.chaos_level);
        }
        let counts: Arc<Vec<AtomicU32>> = Arc::new((0..c.n).map(|_| AtomicU32::new(0)).collect());
        let pulled = Arc::new(AtomicUsize::new(0));
        let dropped = Arc::new(AtomicBool::new(false));
        let src = Source {
            i: 0,
            n: c.n,
            pulled: pulled.clone(),
            dropped: dropped.clone(),
            slow: c.slow_src.clone(),
            gap: c.gap_at,
        };
        let counts2 = counts.clone();
        let slow = c.slow.clone();
        let f: text_utils::data::Pipeline<usize, u64> = Arc::new(move |x: usize| {
            if let Some(cn) = counts2.get(x) {
                cn.fetch_add(1, Ordering::SeqCst);
            }
            for (i, us) in &slow {
                if *i == x {
                    busy(*us);
                }
            }
            tag(x)
        });
        let pipe = src.pipe(f, c.threads);
        // second pipe: its own upstream, workers and consumer thread; not known to the controller
        let second = c.second_pipe.map(|(w2, n2)| {
            std::thread::spawn(move || -> Result<(), String> {
                let calls: Arc<Vec<AtomicU32>> =
                    Arc::new((0..n2).map(|_| AtomicU32::new(0)).collect());
                let calls2 = calls.clone();
                let f2: text_utils::data::Pipeline<usize, u64> = Arc::new(move |x: usize| {
                    if let Some(cn) = calls2.get(x) {
                        cn.fetch_add(1, Ordering::SeqCst);
                    }
                    tag(x) ^ 0x5555
                });
                let out: Vec<u64> = (0..n2).pipe(f2, w2).collect();
                let expect: Vec<u64> = (0..n2).map(|x| tag(x) ^ 0x5555).collect();
                if out != expect {
                    return Err(format!(
                        "second pipe (W={w2}, n={n2}) yielded {} items, first 8 {:?}, expected {:?}",
                        out.len(),
                        &out[..out.len().min(8)],
                        &expect[..expect.len().min(8)]
                    ));
                }
                if calls.iter().any(|c| c.load(Ordering::SeqCst) != 1) {
                    return Err("second pipe: an item was not processed exactly once".to_string());
                }
                Ok(())
            })
        });
        let done = Arc::new(AtomicBool::new(false));
        let result: Arc<Mutex<Option<RunOut>>> = Arc::new(Mutex::new(None));
        let (s2, done2, result2) = (s.clone(), done.clone(), result.clone());
        let (pause_every, pause_us, n) = (c.pause_every, c.pause_us, c.n);
        let consumer = std::thread::Builder::new()
            .name("consumer".into())
            .spawn(move || {
                let mut pipe = pipe;
                let mut out = vec![];
                let mut got_none = false;
                // never pull more than n + 2 items: a pipe that duplicates items must not run forever
                while out.len() < n + 2 {
                    s2.consumer_point(Pt::ConsBeforeRecv, out.len());
                    let r = pipe.next();
                    match r {
                        Some(v) => {
                            out.push(v);
                            s2.consumer_point(Pt::ConsAfterRecvSome, out.len());
                            if pause_every > 0 && out.len() % pause_every == 0 {
                                std::thread::sleep(Duration::from_micros(pause_us as u64));
                            }
                        }
                        None => {
                            s2.consumer_point(Pt::ConsAfterRecvNone, out.len());
                            got_none = true;
                            break;
                        }
                    }
                }
                let extra_none = got_none && pipe.next().is_none() && pipe.next().is_none();
                drop(pipe);
                *result2.lock().unwrap() = Some(RunOut {
                    out,
                    got_none,
                    extra_none,
                });
                s2.mark_exited(sched::CONSUMER);
                done2.store(true, Ordering::SeqCst);
            })
            .expect("spawn consumer");

        let mut stuck: Option<String> = None;
        let mut steps = 0;
        let mut nontrivial_choices = 0;
        if controlled {
            let r = sched::control(&s, &c.strategy, c.sseed, &done, 20_000);
            steps = r.steps;
            nontrivial_choices = r.nontrivial_choices;
            obs.add("schedule_steps", r.steps);
            obs.add("mispredicted_steps", r.mispredictions);
            obs.add("blocked_in_real_op_detections", r.blocked_detections);
            obs.distinct("interleavings", hash64(&r.trace));
            // a replay re-drives the controller with this grant sequence
            let mut rc = c.clone();
            rc.strategy = Strategy::Replay(r.trace.iter().map(|(p, _)| *p).collect());
            obs.replay_case = serde_json::to_value(&rc).ok();
            match r.end {
                RunEnd::Finished | RunEnd::Aborted => {}
                RunEnd::Deadlock(d) => {
                    let tr: String = r
                        .trace
                        .iter()
                        .map(|(p, c)| format!("{p}.{c}"))
                        .collect::<Vec<_>>()
                        .join(" ");
                    stuck = Some(format!("{d}; grant sequence (participant.point): {tr}"));
                }
                RunEnd::Diverged(d) => obs.inconclusive(format!("replay diverged: {d}")),
                RunEnd::Watchdog(d) => obs.inconclusive(format!("controller watchdog: {d}")),
            }
        } else {
            // free running: wait for the consumer; a monitor thread looks for a stuck state
            let s3 = s.clone();
            let stuck_flag: Arc<Mutex<Option<String>>> = Arc::new(Mutex::new(None));
            let sf = stuck_flag.clone();
            let mon = std::thread::spawn(move || {
                if let Some(d) = sched::free_running_stuck(&s3, 40, Duration::from_millis(25)) {
                    *sf.lock().unwrap() = Some(d);
                }
            });
            let t0 = Instant::now();
            loop {
                if done.load(Ordering::SeqCst) {
                    break;
                }
                if let Some(d) = stuck_flag.lock().unwrap().clone() {
                    stuck = Some(d);
                    break;
                }
                if t0.elapsed() > Duration::from_secs(600) {
                    obs.inconclusive("free running case did not finish within 600 s wall clock");
                    stuck = Some(String::new());
                    break;
                }
                std::thread::sleep(Duration::from_micros(200));
            }
            s.release_all();
            let _ = mon.join();
        }
        s.release_all();
        if let Some(d) = stuck {
            if !d.is_empty() {
                obs.fail(
                    if c.gap_at.is_some() { "non-fused-source/deadlock" } else { "deadlock" },
                    format!("W={} n={} {:?} gap_at={:?}: {d}", c.threads, c.n, c.strategy, c.gap_at),
                );
            }
            // the consumer (and workers) are stuck for good: ask for a fresh worker process
            obs.poison();
            return;
        }
        let _ = consumer.join();
        let Some(r) = result.lock().unwrap().take() else {
            obs.inconclusive("consumer thread ended without a result");
            return;
        };
        let expect: Vec<u64> = (0..c.n).map(tag).collect();
        if let Some(g) = c.gap_at {
            // outside the statement: only what every reading of "sequential map" implies is judged
            // (the iteration ended instead of hanging, and what came out is an ordered subsequence
            // of the mapped input without duplicates)
            obs.tag("non-fused-source");
            let mut pos = 0usize;
            let ordered = r.out.iter().all(|t| match expect[pos..].iter().position(|e| e == t) {
                Some(k) => {
                    pos += k + 1;
                    true
                }
                None => false,
            });
            obs.check(ordered, "non-fused-source/output-not-an-ordered-subsequence", || {
                format!(
                    "W={} n={} gap before item {g}: got {} items, first 12 {:?}",
                    c.threads,
                    c.n,
                    r.out.len(),
                    &r.out[..r.out.len().min(12)]
                )
            });
            obs.tag_if(r.out.len() == c.n, "non-fused-source/all-items-delivered");
            if let Some(h) = second {
                let _ = h.join();
            }
            return;
        }
        if r.out != expect {
            let lost = expect.iter().filter(|t| !r.out.contains(t)).count();
            let dup = r.out.len() + lost - expect.len().min(r.out.len() + lost);
            let sig = if r.out.len() == expect.len() && lost == 0 {
                "output/reordered"
            } else if lost > 0 {
                "output/item-lost"
            } else {
                "output/item-duplicated"
            };
            obs.fail(
                sig,
                format!(
                    "W={} n={} {:?}: got {} items, {} lost, ~{} extra; first 12 got={:?} expected={:?}",
                    c.threads,
                    c.n,
                    c.strategy,
                    r.out.len(),
                    lost,
                    dup,
                    &r.out[..r.out.len().min(12)],
                    &expect[..expect.len().min(12)]
                ),
            );
        }
        obs.check(r.got_none, "iteration-does-not-end", || {
            format!("W={} n={}: no None after {} items", c.threads, c.n, r.out.len())
        });
        if r.got_none {
            obs.check(r.extra_none, "next-after-end-not-none", || {
                "next() returned Some after None".to_string()
            });
        }
        let bad: Vec<(usize, u32)> = counts
            .iter()
            .enumerate()
            .map(|(i, c)| (i, c.load(Ordering::SeqCst)))
            .filter(|(_, c)| *c != 1)
            .take(8)
            .collect();
        obs.check(bad.is_empty(), "processed-not-exactly-once", || {
            format!("W={} n={}: (item, calls) = {bad:?}", c.threads, c.n)
        });
        obs.check(
            pulled.load(Ordering::SeqCst) == c.n,
            "upstream-pull-count",
            || format!("pulled {} of {}", pulled.load(Ordering::SeqCst), c.n),
        );
        // all workers exited <=> the shared upstream iterator was dropped
        let t0 = Instant::now();
        while !dropped.load(Ordering::SeqCst) && t0.elapsed() < Duration::from_secs(10) {
            std::thread::sleep(Duration::from_micros(100));
        }
        if !dropped.load(Ordering::SeqCst) {
            obs.inconclusive("upstream iterator not dropped 10 s after the end of the iteration");
        }
        if let Some(h) = second {
            // (joined only on the non-deadlock path; a stuck second pipe would stall here and is
            // then reported by the lane's wall-clock watchdog as inconclusive)
            match h.join() {
                Ok(Ok(())) => obs.tag("second-pipe-concurrently"),
                Ok(Err(e)) => obs.fail("two-pipes/second-pipe-wrong", e),
                Err(_) => obs.fail("two-pipes/second-pipe-panicked", "consumer thread of the second pipe panicked"),
            }
        }
        obs.tag_if(c.lane == "stall", "long-stall");
        let nt = if c.lane == "stall" {
            true
        } else if controlled {
            w >= 2 && c.n >= 3 && nontrivial_choices > 0
        } else if c.lane == "long" {
            w >= 2 && c.n > 65_536
        } else {
            w >= 2 && c.n >= 3 && c.chaos_level > 0
        };
        obs.nontrivial_if(nt);
        obs.tag_if(w == 0, "threads=0");
        obs.tag_if(w == 1, "threads=1");
        obs.tag_if(w >= 8, "threads>=8");
        obs.tag_if(c.n == 0, "empty-input");
        obs.tag_if(c.n < w, "fewer-items-than-workers");
        obs.tag_if(!c.slow.is_empty(), "slow-items");
        obs.tag_if(!c.slow_src.is_empty(), "slow-upstream-items");
        obs.tag_if(c.pause_every > 0, "consumer-pauses");
        match &c.strategy {
            Strategy::Random => obs.tag_if(controlled, "strategy-random"),
            Strategy::Burst => obs.tag("strategy-burst"),
            Strategy::Pct(_) => obs.tag("strategy-pct"),
            Strategy::ConsumerLast => obs.tag("strategy-consumer-last"),
            Strategy::ConsumerFirst => obs.tag("strategy-consumer-first"),
            Strategy::Starve(_) => obs.tag("strategy-starve-one"),
            Strategy::Replay(_) => obs.tag("strategy-replay"),
        }
        obs.max("max_workers", w as u64);
        obs.max("max_items", c.n as u64);
        obs.add("items_through_pipe", c.n as u64);
        obs.note(json!({"steps": steps, "choices_not_first_enabled": nontrivial_choices, "items": r.out.len()}));
    }
}

/// no controller, no delay injection, no clocks: used under Miri, whose scheduler and data-race /
/// deadlock detection are the instruments
fn check_plain(c: &Case, obs: &mut Obs) {
    let counts: Arc<Vec<AtomicU32>> = Arc::new((0..c.n).map(|_| AtomicU32::new(0)).collect());
    let pulled = Arc::new(AtomicUsize::new(0));
    let dropped = Arc::new(AtomicBool::new(false));
    let src = Source {
        i: 0,
        n: c.n,
        pulled: pulled.clone(),
        dropped: dropped.clone(),
        slow: vec![],
        gap: None,
    };
    let counts2 = counts.clone();
    let f: text_utils::data::Pipeline<usize, u64> = Arc::new(move |x: usize| {
        if let Some(cn) = counts2.get(x) {
            cn.fetch_add(1, Ordering::SeqCst);
        }
        tag(x)
    });
    let mut pipe = src.pipe(f, c.threads);
    let mut out = vec![];
    let mut got_none = false;
    while out.len() < c.n + 2 {
        match pipe.next() {
            Some(v) => out.push(v),
            None => {
                got_none = true;
                break;
            }
        }
    }
    let extra_none = got_none && pipe.next().is_none();
    drop(pipe);
    let expect: Vec<u64> = (0..c.n).map(tag).collect();
    obs.check(out == expect, "output/differs", || {
        format!("W={} n={}: got {:?} expected {:?}", c.threads, c.n, out, expect)
    });
    obs.check(got_none && extra_none, "iteration-does-not-end", || {
        format!("W={} n={}: got_none={got_none} extra_none={extra_none}", c.threads, c.n)
    });
    let bad = counts.iter().filter(|c| c.load(Ordering::SeqCst) != 1).count();
    obs.check(bad == 0, "processed-not-exactly-once", || {
        format!("{bad} items not processed exactly once")
    });
    // workers exit after the end of the iteration: wait (yielding) for the upstream Drop
    let mut spins = 0u32;
    while !dropped.load(Ordering::SeqCst) && spins < 2_000_000 {
        std::thread::yield_now();
        spins += 1;
    }
    if !dropped.load(Ordering::SeqCst) {
        obs.inconclusive("upstream iterator not dropped after 2e6 yields");
    }
    obs.nontrivial_if(c.threads >= 2 && c.n >= 3);
}
