//! C20 — dictionary creation counts exactly, keeps the top entries, for any thread count;
//! save/load round trip; get / get_closest.
use crate::core::*;
use crate::gen::{self, len_geo};
use rand::seq::IndexedRandom;
use rand::Rng as _;
use serde::{Deserialize, Serialize};
use serde_json::json;
use std::collections::BTreeMap;
use std::fs;
use std::path::PathBuf;
use text_utils::dictionary::{Dictionary, DictionaryDistanceMeasure};
use unicode_segmentation::UnicodeSegmentation;

pub struct C20;

#[derive(Serialize, Deserialize, Clone, Debug)]
pub struct Case {
    /// complete contents of the input files, in order
    pub files: Vec<String>,
    pub max_size: Option<usize>,
    pub max_sequences: Option<usize>,
    pub use_characters: bool,
    pub char_grams: u8,
    /// one create() per entry, in this order (an entry may repeat: repetitions)
    pub threads: Vec<u8>,
    pub queries: Vec<String>,
}

// ---------------------------------------------------------------------------------------
// reference model (no regex, no std classification functions: explicit tables for the
// alphabet the generator uses)

const LETTERS: &[char] = &[
    'a', 'b', 'c', 'd', 'e', 'f', 'i', 't', 'q', 'z', 'g', 'h', 'j', 'x', 'A', 'B', 'Z', 'ä', 'é',
];
/// combining marks (category Mn): word characters for the word pattern, not alphabetic; they
/// extend the preceding character to one grapheme cluster
const MARKS: &[char] = &['\u{301}', '\u{308}'];
/// a two-code-point grapheme cluster that NFKC leaves alone (there is no precomposed form)
const STABLE_CLUSTER: &str = "x\u{301}";
const DIGITS: &[char] = &['0', '1', '9'];
/// Unicode category P within the alphabet ('_' is Pc and additionally a word character)
const PUNCT: &[char] = &['.', ',', '-', '!', '_'];
/// category S: neither word characters nor punctuation
const SYMBOLS: &[char] = &['$', '+'];
/// White_Space characters that may separate words inside a line
const SPACES: &[char] = &[' ', '\t', '\r', '\u{a0}'];
/// sequences that NFKC rewrites (each is one grapheme cluster) and their normal forms
const UNSTABLE: &[(&str, &str)] = &[("e\u{301}", "é"), ("a\u{308}", "ä"), ("ﬁ", "fi")];

fn is_letter(c: char) -> bool {
    LETTERS.contains(&c)
}
fn is_digit(c: char) -> bool {
    DIGITS.contains(&c)
}
fn in_alphabet(c: char) -> bool {
    is_letter(c) || is_digit(c) || PUNCT.contains(&c) || SYMBOLS.contains(&c) || MARKS.contains(&c) || c == 'ﬁ'
}

/// NFKC on the generator's alphabet: three rewrites, everything else is stable
fn ref_normalize(s: &str) -> String {
    let mut out = s.to_string();
    for (from, to) in UNSTABLE {
        out = out.replace(from, to);
    }
    out
}

/// lines as a buffered line reader yields them
fn ref_lines(content: &str) -> Vec<&str> {
    if content.is_empty() {
        return vec![];
    }
    let mut v: Vec<&str> = content.split('\n').collect();
    if v.last() == Some(&"") {
        v.pop();
    }
    v
}

fn ref_words(line: &str) -> Vec<String> {
    line.split(|c: char| SPACES.contains(&c))
        .filter(|w| !w.is_empty())
        .map(ref_normalize)
        .collect()
}

/// word parts of one whitespace-free, normalised word: a maximal run of word characters
/// (letters, marks, '_', digits) is a part iff it contains no digit
pub fn ref_word_parts(word: &str) -> Vec<String> {
    let mut parts = vec![];
    let mut run = String::new();
    let mut has_digit = false;
    for c in word.chars().chain(std::iter::once('\u{0}')) {
        if is_letter(c) || MARKS.contains(&c) || c == '_' || is_digit(c) {
            has_digit |= is_digit(c);
            run.push(c);
        } else {
            if !run.is_empty() && !has_digit {
                parts.push(run.clone());
            }
            run.clear();
            has_digit = false;
        }
    }
    parts
}

/// character n-grams (n = 1 or 3) of one whitespace-free, normalised word
pub fn ref_char_grams(word: &str, n: u8) -> Vec<String> {
    // items = grapheme clusters: a mark joins the item before it
    let mut cs: Vec<String> = vec![];
    for c in word.chars() {
        match cs.last_mut() {
            Some(last) if MARKS.contains(&c) => last.push(c),
            _ => cs.push(c.to_string()),
        }
    }
    let mut out = vec![];
    for (i, c) in cs.iter().enumerate() {
        // kept iff the centre consists of letters only or of punctuation only
        if !(c.chars().all(is_letter) || c.chars().all(|x| PUNCT.contains(&x))) {
            continue;
        }
        if n == 1 {
            out.push(c.clone());
        } else {
            let left = if i == 0 { "<bow>" } else { cs[i - 1].as_str() };
            let right = if i + 1 == cs.len() { "<eow>" } else { cs[i + 1].as_str() };
            out.push(format!("{left} {c} {right}"));
        }
    }
    out
}

pub fn reference(
    files: &[String],
    max_sequences: Option<usize>,
    use_characters: bool,
    char_grams: u8,
) -> BTreeMap<String, usize> {
    let mut counts: BTreeMap<String, usize> = BTreeMap::new();
    let mut seen = 0usize;
    'files: for f in files {
        for line in ref_lines(f) {
            if max_sequences.is_some_and(|m| seen >= m) {
                break 'files;
            }
            seen += 1;
            for w in ref_words(line) {
                let toks = if use_characters { ref_char_grams(&w, char_grams) } else { ref_word_parts(&w) };
                for t in toks {
                    *counts.entry(t).or_insert(0) += 1;
                }
            }
        }
    }
    counts
}

/// plain Levenshtein (insert / delete / substitute) over extended grapheme clusters, two rows
pub fn ref_lev(a: &str, b: &str) -> (usize, usize) {
    let a: Vec<&str> = a.graphemes(true).collect();
    let b: Vec<&str> = b.graphemes(true).collect();
    let mut prev: Vec<usize> = (0..=b.len()).collect();
    for i in 1..=a.len() {
        let mut cur = vec![i; b.len() + 1];
        for j in 1..=b.len() {
            let sub = prev[j - 1] + usize::from(a[i - 1] != b[j - 1]);
            cur[j] = sub.min(prev[j] + 1).min(cur[j - 1] + 1);
        }
        prev = cur;
    }
    (prev[b.len()], a.len().max(b.len()).max(1))
}

// ---------------------------------------------------------------------------------------
// generation

fn gen_token(rng: &mut Rng, letters: &[char], unstable: bool, cluster: bool) -> String {
    let n = 1 + len_geo(rng, 1.8, 6);
    let mut s = String::new();
    for _ in 0..n {
        match rng.random_range(0..100) {
            0..=63 => s.push(*letters.choose(rng).unwrap()),
            64..=70 => s.push(*DIGITS.choose(rng).unwrap()),
            71..=76 => s.push('_'),
            77..=87 => s.push(*PUNCT.choose(rng).unwrap()),
            88..=92 => s.push(*SYMBOLS.choose(rng).unwrap()),
            93..=95 if cluster => s.push_str(STABLE_CLUSTER),
            _ => {
                if unstable {
                    s.push_str(UNSTABLE.choose(rng).unwrap().0);
                } else {
                    s.push(*letters.choose(rng).unwrap());
                }
            }
        }
    }
    s
}

/// unique, purely alphabetic word for line `i` (digits would not be counted as word parts)
fn line_marker(i: usize) -> String {
    let mut s = String::from("zq");
    let mut n = i;
    loop {
        s.push(['a', 'b', 'c', 'd', 'e', 'f', 'g', 'h', 'i', 'j'][n % 10]);
        n /= 10;
        if n == 0 {
            break;
        }
    }
    s
}

fn gen_sep(rng: &mut Rng) -> &'static str {
    match rng.random_range(0..20) {
        0 => "  ",
        1 => "\t",
        2 => "\u{a0}",
        3 => " \t ",
        _ => " ",
    }
}

/// 1-2 edits on grapheme clusters (so the result stays NFKC-stable when `s` is)
fn mutate(rng: &mut Rng, s: &str, letters: &[char]) -> String {
    let mut cs: Vec<String> = s.graphemes(true).map(|g| g.to_string()).collect();
    for _ in 0..rng.random_range(1..=2) {
        let n = cs.len();
        match rng.random_range(0..3) {
            0 if n >= 1 => {
                cs.remove(rng.random_range(0..n));
            }
            1 => cs.insert(rng.random_range(0..=n), letters.choose(rng).unwrap().to_string()),
            _ if n >= 1 => cs[rng.random_range(0..n)] = letters.choose(rng).unwrap().to_string(),
            _ => {}
        }
    }
    cs.concat()
}

const THREADED: &[u8] = &[2, 3, 8, 64, 255];

impl Prop for C20 {
    type Case = Case;
    const ID: &'static str = "C20";

    fn lanes(tier: Tier) -> Vec<Lane> {
        vec![
            Lane::new("main", tier.pick(1_600, 8_000))
                .cap(tier.pick(180, 1500))
                .floor(tier.pick(100, 500)),
            // up to 400 lines or up to 2000 words per line, vocabularies of up to 2000 tokens,
            // and single lines in which one token occurs 66 000 - 70 000 times
            Lane::new("large", tier.pick(320, 6_400))
                .cap(tier.pick(180, 1500))
                .floor(tier.pick(20, 400)),
        ]
    }

    fn rule() -> &'static str {
        "1-3 files (some empty, last line with or without newline, LF or CRLF) with 0-40 (thorough: \
         0-150) lines of 0-8 whitespace words drawn Zipf-like from a 3-40 (thorough: up to 120) token \
         vocabulary over 2-5 letters, digits, '_', '.,-!', '$+', sometimes NFKC-unstable sequences \
         (e+U+0301, a+U+0308, the fi ligature) and the NFKC-stable two-code-point cluster x+U+0301; \
         separators space / tab / NBSP / runs; 40%: every line additionally carries a unique \
         alphabetic marker word, so the set of counted lines is observable. Modes: word parts / \
         character 1-grams / character 3-grams. max_size: None, 0, a position inside a frequency tie \
         of the reference (preferred), below, equal to, above the vocabulary, usize::MAX; \
         max_sequences: None or 0..=lines+2 (mostly inside). Each case calls Dictionary::create for a \
         baseline (0 or 1 threads), 2-3 (thorough: all 5) threaded counts out of {2,3,8,64,255} and \
         repeats one threaded count (thorough: 3-9 times); every result is compared with an \
         independent counter (subset with identical counts, len, cut order, freq_sum), with the first \
         run and with earlier runs of the same thread count; the first and last dictionary go through \
         save/load, get and get_closest (two measures; queries = keys, mutated keys, random strings, \
         the empty string) against an own Levenshtein. \
         non-trivial = some run used >= 2 threads, the reference has >= 10 distinct entries and \
         max_size cuts through a frequency tie (0 < max_size < |reference| and the entries at sorted \
         positions max_size-1 and max_size have equal frequency)."
    }

    fn assumptions() -> Vec<&'static str> {
        vec![
            "the corpus alphabet is restricted (ASCII letters, 0/1/9, '_', '.,-!', '$+', ä, é, three NFKC-unstable sequences, the cluster x+U+0301, separators space/tab/CR/NBSP) so that the oracle can classify characters and normalise with explicit tables instead of regex / unicode crates; other scripts are not exercised",
            "get_closest oracle segments strings with unicode-segmentation like the repo (after normalisation all generated clusters are single code points except x+U+0301); its independence is in the dynamic programme and the argmin / tie rule",
            "which of several equally frequent entries survives the max_size cut is left free; only equality between runs is demanded there",
            "temp files under std::env::temp_dir() are written and read back faithfully by the OS; an attempt whose input files are not intact afterwards (removed by another process) is discarded and repeated, after 3 such attempts the case is inconclusive",
        ]
    }

    fn generate(rng: &mut Rng, tier: Tier, _lane: &str) -> Case {
        let big = tier == Tier::Thorough && rng.random_bool(0.3);
        // `large` lane: the multiplier of the case goes to the number of lines or to the words
        // per line (token lengths stay as they are), the vocabulary grows up to 2000 tokens
        let k = gen::scale();
        gen::set_scale(1);
        let (lscale, wscale) = match k {
            1 => (1, 1),
            // (the repo compiles a regex per line, milliseconds each: at most 400 lines)
            _ if rng.random_bool(0.5) => (k.min(10), 1),
            _ => (1, k),
        };
        // per-case alphabet: few letters make collisions dense
        let pool: &[char] = &['a', 'b', 'c', 'e', 't', 'A', 'ä', 'é', 'f', 'i'];
        let nl = rng.random_range(2..=5);
        let mut letters: Vec<char> = pool.choose_multiple(rng, nl).copied().collect();
        let mut unstable = rng.random_bool(0.25);
        let mut cluster = rng.random_bool(0.3);
        // long lines are ascii with few non-ascii separators: the repo's clean() looks characters
        // up in time linear in the number of runs of equal byte width (quadratic on long
        // mixed-width lines)
        let long_lines = wscale > 10 || k == 250;
        if long_lines {
            letters.retain(|c| c.is_ascii());
            if letters.len() < 2 {
                letters = vec!['a', 'b', 'e'];
            }
            unstable = false;
            cluster = false;
        }
        let vmax = if big { 120 } else { 40 * k.min(50) };
        let nv = rng.random_range(3..=vmax);
        let vocab: Vec<String> = (0..nv).map(|_| gen_token(rng, &letters, unstable, cluster)).collect();
        // Zipf-like cumulative weights 1/(rank+1)
        let mut cum = vec![];
        let mut tot = 0.0f64;
        for r in 0..nv {
            tot += 1.0 / (r as f64 + 1.0);
            cum.push(tot);
        }
        let nlines = match rng.random_range(0..20) {
            0 => rng.random_range(0..=2),
            _ => rng.random_range(3..=if big { 150 } else { 40 * lscale }),
        };
        // one line in which one token occurs 66 000 - 70 000 times
        let flood_line = if k == 250 && nlines > 0 && rng.random_bool(0.3) {
            Some(rng.random_range(0..nlines))
        } else {
            None
        };
        let markers = rng.random_bool(0.4);
        let crlf = rng.random_bool(0.1);
        let mut lines: Vec<String> = vec![];
        for i in 0..nlines {
            let nw = gen::with_scale(wscale, || len_geo(rng, 3.5, 8));
            let mut ws: Vec<String> = (0..nw)
                .map(|_| {
                    let x = rng.random::<f64>() * tot;
                    let k = cum.partition_point(|c| *c < x).min(nv - 1);
                    vocab[k].clone()
                })
                .collect();
            if flood_line == Some(i) {
                let w = vocab[rng.random_range(0..nv)].clone();
                let reps = rng.random_range(66_000..=70_000);
                let p = rng.random_range(0..=ws.len());
                ws.splice(p..p, std::iter::repeat_n(w, reps));
            }
            if markers {
                let p = rng.random_range(0..=ws.len());
                ws.insert(p, line_marker(i));
            }
            let mut l = String::new();
            if rng.random_range(0..10) == 0 {
                l.push_str(gen_sep(rng));
            }
            for (k, w) in ws.iter().enumerate() {
                if k > 0 {
                    if long_lines && ws.len() > 50 && rng.random_range(0..400) != 0 {
                        l.push(' ');
                    } else {
                        l.push_str(gen_sep(rng));
                    }
                }
                l.push_str(w);
            }
            if rng.random_range(0..10) == 0 {
                l.push_str(gen_sep(rng));
            }
            lines.push(l);
        }
        // distribute the lines over the files
        let nfiles = rng.random_range(1..=3);
        let mut cuts: Vec<usize> = (0..nfiles - 1).map(|_| rng.random_range(0..=nlines)).collect();
        cuts.sort();
        cuts.push(nlines);
        let mut files = vec![];
        let mut start = 0;
        let eol = if crlf { "\r\n" } else { "\n" };
        for c in cuts {
            let mut content = lines[start..c].join(eol);
            // a last line that is empty needs its newline to exist as a line at all
            let last_empty = lines[start..c].last().is_some_and(|l| l.is_empty());
            if c > start && (last_empty || rng.random_bool(0.7)) {
                content.push_str(eol);
            }
            files.push(content);
            start = c;
        }
        let total_lines: usize = files.iter().map(|f| ref_lines(f).len()).sum();
        let max_sequences = if rng.random_bool(0.45) {
            None
        } else if rng.random_bool(0.8) && total_lines > 1 {
            Some(rng.random_range(1..total_lines))
        } else {
            Some(rng.random_range(0..=total_lines + 2))
        };
        let (use_characters, char_grams) = match rng.random_range(0..10) {
            // (character mode compiles a regex per word in the repo, 0.4 ms per word: lines of
            // hundreds of words and flood lines are counted in word mode only; a thorough run of
            // the first version had a case of 150 lines x 2000 words in character mode that burnt
            // the 120 CPU seconds of the non-termination budget)
            _ if flood_line.is_some() || wscale > 10 => (false, if rng.random_bool(0.5) { 1 } else { 3 }),
            0..=4 => (false, if rng.random_bool(0.5) { 1 } else { 3 }),
            5..=6 => (true, 1),
            _ => (true, 3),
        };
        // max_size relative to the reference vocabulary
        let r = reference(&files, max_sequences, use_characters, char_grams);
        let n = r.len();
        let mut freqs: Vec<usize> = r.values().copied().collect();
        freqs.sort_by(|a, b| b.cmp(a));
        let ties: Vec<usize> = (1..n).filter(|&k| freqs[k - 1] == freqs[k]).collect();
        let roll = rng.random_range(0..100);
        let max_size = if roll < 14 {
            None
        } else if roll < 20 {
            Some(0)
        } else if roll < 65 && !ties.is_empty() {
            Some(*ties.choose(rng).unwrap())
        } else if roll < 80 && n >= 2 {
            Some(rng.random_range(1..n))
        } else if roll < 87 {
            Some(n)
        } else if roll < 97 {
            Some(n + rng.random_range(1..=10))
        } else {
            Some(usize::MAX)
        };
        // thread counts
        let mut threads: Vec<u8> = vec![if rng.random_bool(0.5) { 0 } else { 1 }];
        if tier == Tier::Thorough {
            threads.extend_from_slice(THREADED);
            if rng.random_bool(0.5) {
                threads.push(1 - threads[0]);
            }
            let rep = *[2u8, 3, 8, 8, 64].choose(rng).unwrap();
            for _ in 0..rng.random_range(3..=9) {
                threads.push(rep);
            }
        } else {
            let k = rng.random_range(2..=3);
            let mut t: Vec<u8> = THREADED.choose_multiple(rng, k).copied().collect();
            t.sort();
            // repeat one of them (not 255: thread start-up dominates the cost)
            let cheap: Vec<u8> = t.iter().copied().filter(|&x| x != 255).collect();
            let rep = *cheap.choose(rng).unwrap();
            threads.extend(t);
            threads.push(rep);
        }
        // queries
        let keys: Vec<&String> = r.keys().collect();
        let mut queries = vec![];
        for _ in 0..rng.random_range(2..=5) {
            let q = match rng.random_range(0..10) {
                0 => String::new(),
                1..=2 if !keys.is_empty() => (*keys.choose(rng).unwrap()).clone(),
                3..=7 if !keys.is_empty() => {
                    let k = (*keys.choose(rng).unwrap()).clone();
                    mutate(rng, &k, &letters)
                }
                _ => gen_token(rng, &letters, false, cluster),
            };
            queries.push(q);
        }
        Case { files, max_size, max_sequences, use_characters, char_grams, threads, queries }
    }

    fn check(c: &Case, obs: &mut Obs) {
        // seeded delays at the schedule points of the counting threads (hook H5): three quarters of
        // the cases perturb the arrival order of lines / per-line results
        let h = hash64(&serde_json::to_string(c).unwrap_or_default());
        let s = crate::sched::sched();
        s.ensure_installed();
        // (corpora of more than 300 lines run without injected delays: one delay per line and
        // schedule point would cost CPU-minutes)
        let level = if c.files.iter().map(|f| f.lines().count()).sum::<usize>() > 300 { 0 } else { (h % 4) as u8 };
        s.set_chaos_all(h, level);
        obs.tag_if(level != 0, "delay-injection-in-counting-threads");
        check_with_delays(c, obs);
        s.set_chaos_all(0, 0);
    }
}

fn check_with_delays(c: &Case, obs: &mut Obs) {
    {
        let dir = std::env::temp_dir()
            .join(format!("tuverif-{}", std::process::id()))
            .join(format!("c20-{:016x}", hash64(&(&c.files, c.max_size, c.max_sequences))));
        // The experiment is only valid if the input files exist unchanged while it runs. The
        // temp directory is shared with other processes (and their clean-up scripts), so the
        // observations of an attempt are committed only after the files were read back intact;
        // otherwise the attempt is discarded and repeated.
        for _attempt in 0..3 {
            let _ = fs::remove_dir_all(&dir);
            if fs::create_dir_all(&dir).is_err() {
                continue;
            }
            let mut paths: Vec<PathBuf> = vec![];
            for (i, content) in c.files.iter().enumerate() {
                let p = dir.join(format!("in{i}.txt"));
                if fs::write(&p, content).is_ok() {
                    paths.push(p);
                }
            }
            let mut attempt = Obs::default();
            if paths.len() == c.files.len() {
                check_inner(c, &paths, &dir, &mut attempt);
            }
            let intact = paths.len() == c.files.len()
                && paths
                    .iter()
                    .zip(&c.files)
                    .all(|(p, content)| fs::read_to_string(p).is_ok_and(|s| s == *content));
            let _ = fs::remove_dir_all(&dir);
            // the per-process parent goes too when nothing else of this process lives in it
            if let Some(parent) = dir.parent() {
                let _ = fs::remove_dir(parent);
            }
            if intact {
                obs.nontrivial |= attempt.nontrivial;
                obs.tags.append(&mut attempt.tags);
                obs.counters.append(&mut attempt.counters);
                obs.maxima.append(&mut attempt.maxima);
                obs.distinct.append(&mut attempt.distinct);
                obs.violations.append(&mut attempt.violations);
                obs.inconclusive.append(&mut attempt.inconclusive);
                obs.note = attempt.note.take();
                return;
            }
            obs.add("attempts-discarded-input-files-disturbed", 1);
        }
        obs.inconclusive(
            "the temporary input files could not be kept intact for the duration of a case (3 attempts): \
             another process removes or rewrites them",
        );
    }
}

fn to_map(d: &Dictionary) -> BTreeMap<String, usize> {
    d.items().map(|(k, v)| (k.clone(), *v)).collect()
}

fn diff(a: &BTreeMap<String, usize>, b: &BTreeMap<String, usize>) -> String {
    let only_a: Vec<_> = a.iter().filter(|(k, v)| b.get(*k) != Some(v)).take(5).collect();
    let only_b: Vec<_> = b.iter().filter(|(k, v)| a.get(*k) != Some(v)).take(5).collect();
    format!("first only/different: {only_a:?}; second only/different: {only_b:?}")
}

fn check_inner(c: &Case, paths: &[PathBuf], dir: &std::path::Path, obs: &mut Obs) {
    for f in &c.files {
        if let Some(ch) = f.chars().find(|&ch| !(in_alphabet(ch) || SPACES.contains(&ch) || ch == '\n')) {
            obs.inconclusive(format!("case contains {ch:?}, outside the oracle's alphabet"));
            return;
        }
    }
    let r = reference(&c.files, c.max_sequences, c.use_characters, c.char_grams);
    let n = r.len();
    let mut sorted: Vec<usize> = r.values().copied().collect();
    sorted.sort_by(|a, b| b.cmp(a));
    let expect_len = c.max_size.map_or(n, |m| m.min(n));
    let total_lines: usize = c.files.iter().map(|f| ref_lines(f).len()).sum();
    let tie_cut = c.max_size.is_some_and(|m| m > 0 && m < n && sorted[m - 1] == sorted[m]);
    let threaded = c.threads.iter().any(|&t| t >= 2);
    obs.nontrivial_if(threaded && n >= 10 && tie_cut);
    obs.tag_if(tie_cut, "max_size-cuts-frequency-tie");
    match c.max_size {
        None => obs.tag("max_size-none"),
        Some(0) => obs.tag("max_size-0"),
        Some(m) if m < n => obs.tag("max_size-below-vocabulary"),
        Some(m) if m == n => obs.tag("max_size-equals-vocabulary"),
        Some(usize::MAX) => obs.tag("max_size-usize-max"),
        Some(_) => obs.tag("max_size-above-vocabulary"),
    }
    match c.max_sequences {
        None => obs.tag("max_sequences-none"),
        Some(0) => obs.tag("max_sequences-0"),
        Some(m) if m < total_lines => obs.tag("max_sequences-cut"),
        Some(_) => obs.tag("max_sequences-not-limiting"),
    }
    match (c.use_characters, c.char_grams) {
        (false, _) => obs.tag("word-mode"),
        (true, 1) => obs.tag("char-mode-1"),
        (true, _) => obs.tag("char-mode-3"),
    }
    obs.tag_if(c.threads.contains(&255), "threads-255");
    obs.tag_if(c.threads.contains(&64), "threads-64");
    obs.tag_if(c.threads.contains(&0), "threads-0");
    obs.tag_if(c.files.len() > 1, "multi-file");
    obs.tag_if(c.files.iter().any(|f| f.is_empty()), "empty-file");
    obs.tag_if(c.files.iter().any(|f| !f.is_empty() && !f.ends_with('\n')), "no-final-newline");
    obs.tag_if(c.files.iter().any(|f| f.contains("\r\n")), "crlf");
    obs.tag_if(
        c.files.iter().any(|f| UNSTABLE.iter().any(|(u, _)| f.contains(u))),
        "nfkc-unstable-input",
    );
    obs.tag_if(c.files.iter().any(|f| f.contains(STABLE_CLUSTER)), "multi-code-point-cluster");
    obs.tag_if(c.files.iter().any(|f| f.contains("zqa")), "unique-line-markers");
    obs.tag_if(n == 0, "empty-reference");
    obs.max("reference-entries", n as u64);
    obs.max("lines", total_lines as u64);
    obs.add("creates", c.threads.len() as u64);

    let mut runs: Vec<(u8, BTreeMap<String, usize>)> = vec![];
    let mut dicts: Vec<Dictionary> = vec![];
    for (run, &t) in c.threads.iter().enumerate() {
        let res = catch(|| {
            Dictionary::create(paths, c.max_size, c.max_sequences, t, c.use_characters, c.char_grams, false)
        });
        let d = match res {
            Err((_, msg)) if msg.contains("failed to spawn thread") => {
                // resource limit of the machine (up to 255 threads per call), not a property of the code
                obs.inconclusive(format!("threads={t}: the OS refused to spawn a thread: {msg}"));
                continue;
            }
            Err((loc, msg)) => {
                let file = loc.split(':').next().unwrap_or("?").to_string();
                obs.fail(
                    format!("create/panic@{file}"),
                    format!("threads={t} max_size={:?}: panic at {loc}: {msg}", c.max_size),
                );
                continue;
            }
            Ok(Err(e)) => {
                obs.fail("create/err", format!("threads={t}: {e}"));
                continue;
            }
            Ok(Ok(d)) => d,
        };
        let m = to_map(&d);
        // counts: subset of the reference with identical counts
        for (k, v) in &m {
            match r.get(k) {
                None => {
                    obs.fail("create/entry-not-in-reference", format!("threads={t}: {k:?} -> {v}"));
                    break;
                }
                Some(rv) if rv != v => {
                    obs.fail(
                        "create/count-differs",
                        format!("threads={t}: {k:?} -> {v}, reference {rv}"),
                    );
                    break;
                }
                _ => {}
            }
        }
        obs.check(m.len() == expect_len && d.len() == m.len(), "create/len", || {
            format!(
                "threads={t}: len()={} items={} expected min(max_size={:?}, reference={n})={expect_len}",
                d.len(),
                m.len(),
                c.max_size
            )
        });
        obs.check(d.is_empty() == m.is_empty(), "create/is_empty", || {
            format!("is_empty()={} with {} items", d.is_empty(), m.len())
        });
        // cut: nothing omitted is more frequent than something kept
        let min_kept = m.values().copied().min();
        let max_omitted = r.iter().filter(|(k, _)| !m.contains_key(*k)).map(|(_, v)| *v).max();
        if let (Some(a), Some(b)) = (min_kept, max_omitted) {
            obs.check(a >= b, "create/omitted-more-frequent-than-kept", || {
                format!("threads={t}: min kept frequency {a} < max omitted frequency {b}")
            });
        }
        let sum: usize = m.values().sum();
        obs.check(d.freq_sum == sum, "create/freq_sum", || {
            format!("threads={t}: freq_sum={} sum of kept={sum}", d.freq_sum)
        });
        // identical for every thread count (against the first run) and for every repetition
        // (against the first earlier run with the same thread count)
        if let Some((t0, m0)) = runs.first() {
            if *t0 != t && *m0 != m {
                obs.fail(
                    "create/differs-between-thread-counts",
                    format!("threads={t0} vs threads={t} (run {run}): {}", diff(m0, &m)),
                );
            }
        }
        if let Some((_, m1)) = runs.iter().find(|(s, _)| *s == t) {
            if *m1 != m {
                obs.fail(
                    "create/differs-between-repetitions",
                    format!("threads={t} (run {run}) vs an earlier run with threads={t}: {}", diff(m1, &m)),
                );
            }
        }
        runs.push((t, m));
        dicts.push(d);
    }
    // save -> load, get, get_closest on the first and the last dictionary
    let k = dicts.len();
    for (i, d) in dicts.iter().enumerate() {
        if i != 0 && i + 1 != k {
            continue;
        }
        let m = to_map(d);
        let p = dir.join(format!("dict{i}.txt"));
        match guarded(obs, "save", || d.save(&p)) {
            Some(Ok(())) => match guarded(obs, "load", || Dictionary::load(&p)) {
                Some(Ok(l)) => {
                    let lm = to_map(&l);
                    obs.check(lm == m, "save-load/entries-differ", || diff(&m, &lm));
                    obs.check(l.freq_sum == d.freq_sum, "save-load/freq_sum-differs", || {
                        format!("saved {} loaded {}", d.freq_sum, l.freq_sum)
                    });
                }
                Some(Err(e)) => obs.fail("load/err", format!("{e}")),
                None => {}
            },
            Some(Err(e)) => obs.fail("save/err", format!("{e}")),
            None => {}
        }
        // get
        for key in r.keys().take(60) {
            let got = d.get(key);
            match m.get(key) {
                Some(v) => {
                    let ok = got.is_some_and(|(f, p)| {
                        f == *v && d.freq_sum > 0 && p == *v as f64 / d.freq_sum as f64
                    });
                    obs.check(ok, "get/value", || {
                        format!("get({key:?})={got:?}, entry {v}, freq_sum {}", d.freq_sum)
                    });
                }
                None => {
                    obs.check(got.is_none(), "get/omitted-entry-found", || {
                        format!("get({key:?})={got:?} but items() has no such entry")
                    });
                }
            }
        }
        // get_closest
        for q in &c.queries {
            for measure in [
                DictionaryDistanceMeasure::EditDistance,
                DictionaryDistanceMeasure::NormalizedEditDistance,
            ] {
                let norm = measure == DictionaryDistanceMeasure::NormalizedEditDistance;
                let area = if norm { "get_closest-normalized" } else { "get_closest" };
                let Some(got) = guarded(obs, area, || d.get_closest(q, measure.clone())) else {
                    continue;
                };
                let Some((term, freq, rel)) = got else {
                    obs.check(m.is_empty(), &format!("{area}/none-on-non-empty"), || {
                        format!("query {q:?}, {} entries", m.len())
                    });
                    continue;
                };
                if m.is_empty() {
                    obs.fail(format!("{area}/some-on-empty"), format!("query {q:?} -> {term:?}"));
                    continue;
                }
                let Some(tf) = m.get(&term) else {
                    obs.fail(format!("{area}/not-an-entry"), format!("query {q:?} -> {term:?}"));
                    continue;
                };
                obs.check(
                    *tf == freq && rel == freq as f64 / d.freq_sum as f64,
                    &format!("{area}/frequency"),
                    || format!("query {q:?} -> ({term:?}, {freq}, {rel}), entry {tf}, freq_sum {}", d.freq_sum),
                );
                // compare distances as fractions num/den (den = 1 when not normalised)
                let frac = |w: &str| {
                    let (dist, maxlen) = ref_lev(q, w);
                    (dist, if norm { maxlen } else { 1 })
                };
                let (gn, gd) = frac(&term);
                let mut nearer = None;
                let mut better_tie = None;
                for (w, f) in &m {
                    let (wn, wd) = frac(w);
                    // wn/wd < gn/gd
                    if wn * gd < gn * wd {
                        nearer = Some((w.clone(), wn, wd));
                    } else if wn * gd == gn * wd && *f > freq {
                        better_tie = Some((w.clone(), *f));
                    }
                }
                if let Some((w, wn, wd)) = nearer {
                    obs.fail(
                        format!("{area}/not-minimal-distance"),
                        format!("query {q:?} -> {term:?} at {gn}/{gd}, but {w:?} is at {wn}/{wd}"),
                    );
                } else if let Some((w, f)) = better_tie {
                    obs.fail(
                        format!("{area}/not-most-frequent-among-ties"),
                        format!("query {q:?} -> {term:?} (freq {freq}) at {gn}/{gd}, but {w:?} has freq {f} at the same distance"),
                    );
                }
                obs.tag_if(gn == 0, "closest-exact-hit");
                obs.tag_if(
                    m.iter().filter(|(w, _)| { let (wn, wd) = frac(w); wn * gd == gn * wd }).count() > 1,
                    "closest-distance-tie",
                );
            }
        }
    }
    obs.note(json!({
        "reference_entries": n,
        "lines": total_lines,
        "expected_len": expect_len,
        "tie_at_cut": tie_cut,
        "runs": c.threads.len(),
        "frequency_at_cut": c.max_size.and_then(|m| if m > 0 && m <= n { Some(sorted[m - 1]) } else { None }),
    }));
}

#[cfg(test)]
mod tests {
    use super::*;
    use rand::SeedableRng;

    /// the reference tokenisation agrees with the repo's split_words / character classes on the
    /// restricted alphabet (validates the oracle's tables, not the property)
    #[test]
    fn reference_matches_split_words() {
        let mut rng = Rng::seed_from_u64(5);
        let all: Vec<char> = LETTERS.iter().chain(DIGITS).chain(PUNCT).chain(SYMBOLS).copied().collect();
        let mut parts_seen = 0;
        for i in 0..3000 {
            let w: String = if i % 2 == 0 {
                (0..rng.random_range(1..=7)).map(|_| *all.choose(&mut rng).unwrap()).collect()
            } else {
                gen_token(&mut rng, &['a', 'b', 'ä'], true, true)
            };
            let nw = text_utils::unicode::normalize(&w, text_utils::unicode::Normalization::NFKC, true);
            assert_eq!(nw, ref_normalize(&w), "normalize {w:?}");
            let real = text_utils::text::split_words(&nw);
            assert_eq!(real.len(), 1);
            let real_parts: Vec<String> = real[0]
                .1
                .clone()
                .unwrap_or_default()
                .into_iter()
                .map(|(s, _)| s.to_string())
                .collect();
            parts_seen += real_parts.len();
            assert_eq!(real_parts, ref_word_parts(&nw), "word {nw:?}");
        }
        assert!(parts_seen > 1000);
    }

    /// character mode: clusters and the alphabetic-or-punctuation rule agree with the repo's
    /// CharString / Character on the restricted alphabet
    #[test]
    fn reference_matches_character_classes() {
        let mut rng = Rng::seed_from_u64(6);
        let mut kept = 0;
        for _ in 0..1500 {
            let w = ref_normalize(&gen_token(&mut rng, &['a', 'e', 'ä', 'f'], true, true));
            let cs = text_utils::unicode::CharString::new(&w, true);
            let expect: Vec<String> = cs
                .chars()
                .filter(|c| c.is_alphabetic() || c.is_punctuation())
                .map(|c| c.str.to_string())
                .collect();
            kept += expect.len();
            assert_eq!(expect, ref_char_grams(&w, 1), "word {w:?}");
            let all: Vec<&str> = text_utils::unicode::CharString::split(&w, true).collect();
            assert_eq!(ref_char_grams(&w, 3).len(), expect.len());
            assert_eq!(all.concat(), w);
        }
        assert!(kept > 1000);
    }
}
