//! C09 — abandoning or failing never wedges the loader: bounded lookahead, prompt stop.
//!
//! (a) while the consumer is idle, pipe / buffered pull only a bounded number of items ahead;
//! (b) after the consumer drops the iterator every background thread stops pulling within the
//!     same bound and exits (observed: Drop of the shared upstream iterator);
//! (c) a panicking processing function terminates the process (child process, the repo's own
//!     panic hook left in place) instead of leaving the consumer blocked.
//! Fault sequence = (stack kind, W, buffer size, k items consumed before idling / dropping,
//! schedule); enumerated by the generator, coverage reported as distinct fault points.
use crate::core::*;
use crate::sched::{self, Mode, Pt, RunEnd, Strategy};
use rand::Rng as _;
use serde::{Deserialize, Serialize};
use serde_json::json;
use std::sync::atomic::{AtomicBool, AtomicUsize, Ordering};
use std::sync::{Arc, Mutex};
use std::time::{Duration, Instant};
use text_utils::data::loading::{BufferedIterator, PipelineIterator};

pub struct C09;

#[derive(Serialize, Deserialize, Clone, Debug, PartialEq, Eq, Hash)]
pub enum Stack {
    Pipe,
    Buffered,
    PipeBuffered,
}

#[derive(Serialize, Deserialize, Clone, Debug)]
pub struct Case {
    pub lane: String,
    pub stack: Stack,
    pub threads: u8,
    pub buffer: usize,
    /// items the consumer takes before it idles and then drops the iterator
    pub k: usize,
    /// upstream length; None = endless
    pub upstream: Option<usize>,
    pub strategy: Strategy,
    pub sseed: u64,
    pub chaos_level: u8,
    /// lane "panic": item whose processing panics (second one optional)
    pub panic_at: Vec<usize>,
    /// false: the consumer drops the iterator right after its k-th item, while the background
    /// threads are in mid-flight (no idle phase, no lookahead-while-idle measurement)
    #[serde(default = "yes")]
    pub idle_before_drop: bool,
    /// (item, busy microseconds): slow items (chaos lane), so that workers are inside the
    /// processing function when the drop happens
    #[serde(default)]
    pub slow: Vec<(usize, u32)>,
    /// (workers, items): an independent second pipe that another thread consumes completely while
    /// this case idles / drops its own iterator; it must be unaffected
    #[serde(default)]
    pub second_pipe: Option<(u8, usize)>,
    /// lane "panic": what the child process does before it builds the pipe whose item panics:
    /// 0 nothing, 1 a two-worker pipe consumed to the end, 2 such a pipe and then a train_bpe run
    /// (which installs its own, print-only panic hook), 3 only the train_bpe run
    #[serde(default)]
    pub prelude: u8,
}

fn yes() -> bool {
    true
}

/// generous bound: 4 * (threads + buffer) + 8. The current code needs at most 2 * threads + 1
/// for the pipe and buffer + 2 for buffered; the bound only has to be a constant that does not
/// depend on the upstream length.
pub fn lookahead_bound(threads: usize, buffer: usize) -> usize {
    4 * (threads + buffer) + 8
}

pub struct MonSource {
    i: usize,
    n: usize,
    limit: usize,
    pulled: Arc<AtomicUsize>,
    consumed: Arc<AtomicUsize>,
    /// usize::MAX until the consumer drops the iterator, then the pull count at that moment
    drop_mark: Arc<AtomicUsize>,
    max_ahead: Arc<AtomicUsize>,
    max_after_drop: Arc<AtomicUsize>,
    exceeded: Arc<AtomicBool>,
    /// the bound was crossed while the consumer still held the iterator
    exceeded_before_drop: Arc<AtomicBool>,
    dropped: Arc<AtomicBool>,
}

impl Iterator for MonSource {
    type Item = usize;
    fn next(&mut self) -> Option<usize> {
        if self.i >= self.n || self.exceeded.load(Ordering::SeqCst) {
            return None;
        }
        let v = self.i;
        self.i += 1;
        let p = self.pulled.fetch_add(1, Ordering::SeqCst) + 1;
        let c = self.consumed.load(Ordering::SeqCst);
        let ahead = p.saturating_sub(c);
        self.max_ahead.fetch_max(ahead, Ordering::SeqCst);
        let dm = self.drop_mark.load(Ordering::SeqCst);
        if dm != usize::MAX {
            let after = p.saturating_sub(dm);
            self.max_after_drop.fetch_max(after, Ordering::SeqCst);
            if after > self.limit {
                self.exceeded.store(true, Ordering::SeqCst);
            }
        } else if ahead > self.limit {
            self.exceeded_before_drop.store(true, Ordering::SeqCst);
            self.exceeded.store(true, Ordering::SeqCst);
        }
        Some(v)
    }
}

impl Drop for MonSource {
    fn drop(&mut self) {
        self.dropped.store(true, Ordering::SeqCst);
    }
}

type BoxIt = Box<dyn Iterator<Item = u64> + Send>;

fn build(
    stack: &Stack,
    src: MonSource,
    threads: u8,
    buffer: usize,
    panic_at: Vec<usize>,
    slow: Vec<(usize, u32)>,
) -> BoxIt {
    let f: text_utils::data::Pipeline<usize, u64> = Arc::new(move |x: usize| {
        if panic_at.contains(&x) {
            panic!("injected panic in the processing function at item {x}");
        }
        for (i, us) in &slow {
            if *i == x {
                let t = Instant::now();
                while t.elapsed() < Duration::from_micros(*us as u64) {
                    std::hint::spin_loop();
                }
            }
        }
        super::c05::tag(x)
    });
    match stack {
        Stack::Pipe => Box::new(src.pipe(f, threads)),
        Stack::Buffered => Box::new(src.map(super::c05::tag).buffered(buffer)),
        Stack::PipeBuffered => Box::new(src.pipe(f, threads).buffered(buffer)),
    }
}

impl Prop for C09 {
    type Case = Case;
    const ID: &'static str = "C09";
    const LEVEL: &'static str = "fault_enumeration";
    const RESETS_PANIC_HOOK: bool = true;

    fn lanes(tier: Tier) -> Vec<Lane> {
        // time caps are safety nets (5-10x the expected duration on an idle 16-core machine)
        vec![
            Lane::new("sched", tier.pick(6_000, 300_000))
                .cap(tier.pick(150, 1500))
                .hang(None)
                .floor(tier.pick(300, 20_000)),
            Lane::new("chaos", tier.pick(640, 12_000))
                .cap(tier.pick(150, 1500))
                .hang(None)
                .floor(tier.pick(50, 3_000)),
            Lane::new("panic", tier.pick(96, 1_500))
                .cap(tier.pick(60, 300))
                .hang(None)
                .shards(8)
                .floor(tier.pick(10, 300)),
            // the consumer goes away after 65 530 - 80 000 items (beyond 2^16 tickets): lookahead
            // bound on the way, stop of the pulls and exit of the threads afterwards (two shards:
            // the repo's workers spin while they wait for their turn)
            Lane::new("long", tier.pick(6, 48))
                .cap(tier.pick(600, 1500))
                .hang(None)
                .shards(2)
                .floor(tier.pick(2, 12)),
        ]
    }

    fn rule() -> &'static str {
        "fault point = (stack in {pipe, buffered, pipe+buffered}, W in 1..=4 (chaos: up to 16), \
         buffer size in {0,1,2,3,8}, k in 0..=8 (10%: up to 60; chaos: up to 40, 25%: up to 300, every third case with a slow consumer) items consumed before the consumer \
         drops the iterator, either after an idle phase (lookahead measured) or in mid-flight (chaos: \
         with slow items around the drop point), upstream endless or just long enough); lanes sched \
         (controller-chosen interleavings at the verif schedule points, strategies as in C05) and \
         chaos (free running with seeded delays), lane long: free running, 2-4 workers, k in \
         65 530..=80 000 with slow items around ticket 2^16. Monitor inside the upstream iterator: at every \
         pull, pulled - consumed <= L while the consumer lives and pulled - pulled_at_drop <= L \
         afterwards, L = 4*(W+buffer)+8 (a constant independent of the upstream length, twice what \
         the current code needs). After the drop the Drop of the upstream iterator must be observed \
         (= every background thread exited); a state in which every remaining thread is futile \
         (spinning at the same point / asleep in a real blocking call) is the violation \
         threads-not-exited. lane panic: child process with the repo's own panic hook, processing \
         function panics at item p (first / middle / last / two items); held iff the child ends by \
         itself with a non-zero status, violated iff its monitor sees the stable wedged state (exit \
         3). distinct fault points are counted; non-trivial = k >= 1 and (W >= 2 or buffer >= 1) and \
         the lookahead phase really pulled ahead of the consumer."
    }

    fn assumptions() -> Vec<&'static str> {
        vec![
            "the bound L is the harness's choice of 'a constant depending on thread count and buffer size'; any implementation whose lookahead grows with the input length crosses it on the endless upstream",
            "idle phase in the chaos lane ends when the pull count is stable for 10 polls of 10 ms (only decides when to stop observing; the verdict is the count)",
            "thread blocking is read from /proc/self/task/<tid>/stat",
        ]
    }

    fn generate(rng: &mut Rng, _tier: Tier, lane: &str) -> Case {
        if lane == "miri" {
            return Case {
                lane: lane.to_string(),
                stack: match rng.random_range(0..3) {
                    0 => Stack::Pipe,
                    1 => Stack::Buffered,
                    _ => Stack::PipeBuffered,
                },
                threads: rng.random_range(1..=3u8),
                buffer: rng.random_range(0..=2),
                k: rng.random_range(0..=4),
                upstream: if rng.random_bool(0.5) { None } else { Some(rng.random_range(0..=8)) },
                strategy: Strategy::Random,
                sseed: rng.random(),
                chaos_level: 0,
                panic_at: vec![],
                idle_before_drop: true,
                slow: vec![],
                second_pipe: None,
                prelude: 0,
            };
        }
        let stack = match rng.random_range(0..3) {
            0 => Stack::Pipe,
            1 => Stack::Buffered,
            _ => Stack::PipeBuffered,
        };
        let buffer = *[0usize, 1, 2, 3, 8].get(rng.random_range(0..5)).unwrap();
        if lane == "panic" {
            // many workers: the window between the first worker starting and Pipe::new finishing
            // (hook installation, remaining spawns) gets wide
            let threads = *[1u8, 2, 3, 4, 4, 8, 16, 32, 64]
                .get(rng.random_range(0..9))
                .unwrap();
            let n = rng.random_range(1..=12usize);
            let mut panic_at = vec![match rng.random_range(0..3) {
                0 => 0,
                1 => n - 1,
                _ => rng.random_range(0..n),
            }];
            if rng.random_bool(0.3) {
                panic_at.push(rng.random_range(0..n));
            }
            return Case {
                lane: lane.to_string(),
                stack: if rng.random_bool(0.6) {
                    Stack::Pipe
                } else {
                    Stack::PipeBuffered
                },
                threads,
                buffer,
                k: 0,
                upstream: Some(n),
                strategy: Strategy::Random,
                sseed: rng.random(),
                chaos_level: rng.random_range(0..=3),
                panic_at,
                idle_before_drop: true,
                slow: vec![],
                second_pipe: None,
                prelude: *[0u8, 0, 1, 2, 2, 3].get(rng.random_range(0..6)).unwrap(),
            };
        }
        let controlled = lane == "sched";
        let long = lane == "long";
        let threads = if controlled {
            rng.random_range(1..=4u8)
        } else if long {
            rng.random_range(2..=4u8)
        } else {
            *[1u8, 2, 2, 3, 4, 4, 8, 16].get(rng.random_range(0..8)).unwrap()
        };
        // mostly small k (every drop point near the start), sometimes a long consumption phase so
        // that a lookahead which grows with the number of consumed items crosses the bound
        let k = if controlled {
            if rng.random_range(0..10) == 0 {
                rng.random_range(9..=60)
            } else {
                rng.random_range(0..=8)
            }
        } else if long {
            // the consumer goes away after more than 2^16 items
            rng.random_range(65_530..=80_000)
        } else if rng.random_range(0..4) == 0 {
            rng.random_range(41..=300)
        } else {
            rng.random_range(0..=40)
        };
        let bound = lookahead_bound(threads as usize, buffer);
        let upstream = match rng.random_range(0..4) {
            // endless
            0..=1 => None,
            // long enough that the bound can be crossed
            2 => Some(k + 3 * bound),
            // ends exactly at / shortly after k
            _ => Some(k + rng.random_range(0..=3)),
        };
        let strategy = match rng.random_range(0..10) {
            0..=2 => Strategy::Random,
            3 => Strategy::Burst,
            4..=6 => Strategy::Pct(rng.random_range(1..=3)),
            7 => Strategy::ConsumerLast,
            8 => Strategy::ConsumerFirst,
            _ => Strategy::Starve(rng.random_range(0..=threads)),
        };
        let idle_before_drop = rng.random_bool(0.5);
        let mut slow = vec![];
        if !controlled && rng.random_bool(0.7) {
            // slow items around the drop point: an earlier item slower than a later one exactly
            // when the consumer goes away
            for _ in 0..rng.random_range(1..=3) {
                slow.push((k + rng.random_range(0..=(threads as usize + 2)), rng.random_range(50..4000u32)));
            }
        }
        if long {
            for _ in 0..rng.random_range(0..=3) {
                slow.push((65_532 + rng.random_range(0..8), rng.random_range(200..20_000u32)));
            }
        }
        Case {
            lane: lane.to_string(),
            stack,
            threads,
            buffer,
            k,
            upstream,
            strategy,
            sseed: rng.random(),
            chaos_level: if long { 0 } else { rng.random_range(0..=4) },
            panic_at: vec![],
            idle_before_drop,
            slow,
            second_pipe: if !long && rng.random_range(0..4) == 0 {
                Some((rng.random_range(1..=3u8), rng.random_range(20..=300usize)))
            } else {
                None
            },
            prelude: 0,
        }
    }

    fn check(c: &Case, obs: &mut Obs) {
        if c.lane == "panic" {
            return check_panic(c, obs);
        }
        if c.lane == "miri" {
            return check_plain(c, obs);
        }
        let s = sched::sched();
        s.ensure_installed();
        let controlled = c.lane == "sched";
        let w = if c.stack == Stack::Buffered { 0 } else { c.threads as usize };
        let with_buf = c.stack != Stack::Pipe;
        let b = if with_buf { c.buffer } else { 0 };
        let limit = lookahead_bound(w, b);
        s.reset(
            if controlled { Mode::Controlled } else { Mode::Chaos },
            w,
            with_buf,
            // capacity used for predictions only
            (w + b).max(1),
        );
        if !controlled {
            s.set_chaos(c.sseed, c.chaos_level);
        }
        let pulled = Arc::new(AtomicUsize::new(0));
        let consumed = Arc::new(AtomicUsize::new(0));
        let drop_mark = Arc::new(AtomicUsize::new(usize::MAX));
        let max_ahead = Arc::new(AtomicUsize::new(0));
        let max_after_drop = Arc::new(AtomicUsize::new(0));
        let exceeded = Arc::new(AtomicBool::new(false));
        let exceeded_before_drop = Arc::new(AtomicBool::new(false));
        let dropped = Arc::new(AtomicBool::new(false));
        let src = MonSource {
            i: 0,
            n: c.upstream.unwrap_or(usize::MAX),
            limit,
            pulled: pulled.clone(),
            consumed: consumed.clone(),
            drop_mark: drop_mark.clone(),
            max_ahead: max_ahead.clone(),
            max_after_drop: max_after_drop.clone(),
            exceeded: exceeded.clone(),
            exceeded_before_drop: exceeded_before_drop.clone(),
            dropped: dropped.clone(),
        };
        let it = build(&c.stack, src, c.threads, c.buffer, vec![], c.slow.clone());
        // second, independent pipe (+ buffered) consumed completely by another thread meanwhile
        let (aux_tx, aux_rx) = std::sync::mpsc::channel::<Result<(), String>>();
        if let Some((w2, n2)) = c.second_pipe {
            std::thread::spawn(move || {
                let f2: text_utils::data::Pipeline<usize, u64> =
                    Arc::new(move |x: usize| super::c05::tag(x) ^ 0xaaaa);
                let out: Vec<u64> = (0..n2).pipe(f2, w2).buffered(2).collect();
                let expect: Vec<u64> = (0..n2).map(|x| super::c05::tag(x) ^ 0xaaaa).collect();
                let _ = aux_tx.send(if out == expect {
                    Ok(())
                } else {
                    Err(format!(
                        "second pipe (W={w2}, n={n2}) yielded {} of {} items, first 8: {:?}",
                        out.len(),
                        n2,
                        &out[..out.len().min(8)]
                    ))
                });
            });
        }
        // consumer thread: take k items, idle until told, drop, finish
        let idle = Arc::new(AtomicBool::new(false));
        let go_drop = Arc::new(AtomicBool::new(false));
        let iter_dropped = Arc::new(AtomicBool::new(false));
        let got: Arc<Mutex<Vec<u64>>> = Arc::new(Mutex::new(vec![]));
        let ended_early = Arc::new(AtomicBool::new(false));
        let (s2, idle2, go2, itd2, got2, cons2, ee2, dm2, pulled2) = (
            s.clone(),
            idle.clone(),
            go_drop.clone(),
            iter_dropped.clone(),
            got.clone(),
            consumed.clone(),
            ended_early.clone(),
            drop_mark.clone(),
            pulled.clone(),
        );
        let k = c.k;
        let idle_first = c.idle_before_drop;
        // free running only: a consumer that is slower than the producers (every third case)
        let slow_consumer_us: u64 = if !controlled && c.sseed % 3 == 0 { 30 + c.sseed % 200 } else { 0 };
        let consumer = std::thread::Builder::new()
            .name("consumer".into())
            .spawn(move || {
                let mut it = it;
                let mut n = 0;
                while n < k {
                    s2.consumer_point(Pt::ConsBeforeRecv, n);
                    match it.next() {
                        Some(v) => {
                            n += 1;
                            got2.lock().unwrap().push(v);
                            cons2.fetch_add(1, Ordering::SeqCst);
                            s2.consumer_point(Pt::ConsAfterRecvSome, n);
                            if slow_consumer_us > 0 {
                                std::thread::sleep(Duration::from_micros(slow_consumer_us));
                            }
                        }
                        None => {
                            s2.consumer_point(Pt::ConsAfterRecvNone, n);
                            ee2.store(true, Ordering::SeqCst);
                            break;
                        }
                    }
                }
                if !idle_first {
                    // drop in mid-flight: the drop is one more step of the consumer in the schedule
                    s2.consumer_point(Pt::ConsBeforeDrop, n);
                    dm2.store(pulled2.load(Ordering::SeqCst), Ordering::SeqCst);
                    drop(it);
                    itd2.store(true, Ordering::SeqCst);
                    s2.consumer_point(Pt::ConsAfterDrop, n);
                    s2.mark_exited(sched::CONSUMER);
                    idle2.store(true, Ordering::SeqCst);
                    return;
                }
                // idle: the controller must not wait for this thread any more
                s2.mark_exited(sched::CONSUMER);
                idle2.store(true, Ordering::SeqCst);
                while !go2.load(Ordering::SeqCst) {
                    std::thread::sleep(Duration::from_micros(100));
                }
                dm2.store(pulled2.load(Ordering::SeqCst), Ordering::SeqCst);
                drop(it);
                itd2.store(true, Ordering::SeqCst);
            })
            .expect("spawn consumer");

        let mut verdict_deadlock: Option<String> = None;
        let mut poisoned = false;
        let mut steps = 0u64;
        if controlled {
            // phase 1: until the consumer idles and everything else is quiescent
            let r1 =
                sched::control_abortable(
                &s,
                &c.strategy,
                c.sseed,
                // nothing left to drive: the consumer idles and every background thread exited
                &|| idle.load(Ordering::SeqCst) && dropped.load(Ordering::SeqCst),
                &exceeded,
                50_000,
                // quiescence is the expected outcome only when the consumer idles before the drop
                if c.idle_before_drop { 3 } else { 30 },
            );
            steps += r1.steps;
            obs.distinct("interleavings", hash64(&r1.trace));
            match r1.end {
                RunEnd::Deadlock(d) => {
                    if !idle.load(Ordering::SeqCst) {
                        // stuck before the consumer got its k items
                        verdict_deadlock = Some(format!("before the consumer idled: {d}"));
                    } else if !c.idle_before_drop {
                        // the drop already happened (mid-flight) and the rest can never exit
                        verdict_deadlock = Some(format!("after the mid-flight drop: {d}"));
                    }
                }
                RunEnd::Finished | RunEnd::Aborted => {}
                RunEnd::Watchdog(d) => obs.inconclusive(format!("phase 1 watchdog: {d}")),
                RunEnd::Diverged(d) => obs.inconclusive(format!("replay diverged: {d}")),
            }
            if verdict_deadlock.is_none() {
                // wait for the consumer to be idle (it may still be between its last point and
                // the idle flag)
                let t = Instant::now();
                while !idle.load(Ordering::SeqCst) && t.elapsed() < Duration::from_secs(20) {
                    std::thread::sleep(Duration::from_micros(50));
                }
                if !idle.load(Ordering::SeqCst) {
                    obs.inconclusive("consumer did not reach its idle phase");
                    poisoned = true;
                }
            }
        } else {
            // free running: wait for idle, then until the pull count is stable
            let t = Instant::now();
            while !idle.load(Ordering::SeqCst) {
                if t.elapsed() > Duration::from_secs(60) {
                    obs.inconclusive("consumer did not reach its idle phase within 60 s");
                    poisoned = true;
                    break;
                }
                std::thread::sleep(Duration::from_micros(100));
            }
            let mut last = usize::MAX;
            let mut stable = 0;
            while stable < 10 && !exceeded.load(Ordering::SeqCst) && !poisoned {
                std::thread::sleep(Duration::from_millis(10));
                let p = pulled.load(Ordering::SeqCst);
                if p == last {
                    stable += 1;
                } else {
                    stable = 0;
                    last = p;
                }
                if t.elapsed() > Duration::from_secs(60) {
                    break;
                }
            }
        }
        let ahead = max_ahead.load(Ordering::SeqCst);
        let pulled_idle = pulled.load(Ordering::SeqCst);
        if exceeded_before_drop.load(Ordering::SeqCst) {
            obs.fail(
                "lookahead/exceeds-bound-before-drop",
                format!(
                    "{:?} W={} buffer={} k={}: at some pull the upstream was {} items ahead of the consumer (bound {limit}); at the end of the idle phase pulled={} consumed={}",
                    c.stack, w, b, c.k, ahead, pulled_idle, consumed.load(Ordering::SeqCst)
                ),
            );
        }
        // phase 2: drop
        if verdict_deadlock.is_none() && !poisoned {
            go_drop.store(true, Ordering::SeqCst);
            let t = Instant::now();
            while !iter_dropped.load(Ordering::SeqCst) && t.elapsed() < Duration::from_secs(20) {
                std::thread::sleep(Duration::from_micros(50));
            }
            if controlled && !c.idle_before_drop {
                // everything was driven to the end in the first (only) phase
            } else if controlled {
                s.clear_futile();
                let r2 = sched::control_abortable(
                    &s,
                    &c.strategy,
                    c.sseed ^ 0x5555,
                    &|| dropped.load(Ordering::SeqCst),
                    &exceeded,
                    50_000,
                    30,
                );
                steps += r2.steps;
                obs.distinct("interleavings_after_drop", hash64(&r2.trace));
                match r2.end {
                    RunEnd::Finished | RunEnd::Aborted => {}
                    RunEnd::Deadlock(d) => verdict_deadlock = Some(format!("after the drop: {d}")),
                    RunEnd::Watchdog(d) => obs.inconclusive(format!("phase 2 watchdog: {d}")),
                    RunEnd::Diverged(d) => obs.inconclusive(format!("replay diverged: {d}")),
                }
            } else {
                let s3 = s.clone();
                let stuck: Arc<Mutex<Option<String>>> = Arc::new(Mutex::new(None));
                let st2 = stuck.clone();
                let mon = std::thread::spawn(move || {
                    if let Some(d) = sched::free_running_stuck(&s3, 40, Duration::from_millis(25)) {
                        *st2.lock().unwrap() = Some(d);
                    }
                });
                let t = Instant::now();
                loop {
                    if dropped.load(Ordering::SeqCst) || exceeded.load(Ordering::SeqCst) {
                        break;
                    }
                    if let Some(d) = stuck.lock().unwrap().clone() {
                        verdict_deadlock = Some(format!("after the drop: {d}"));
                        break;
                    }
                    if t.elapsed() > Duration::from_secs(60) {
                        obs.inconclusive("background threads neither exited nor provably stuck 60 s after the drop");
                        poisoned = true;
                        break;
                    }
                    std::thread::sleep(Duration::from_micros(200));
                }
                s.release_all();
                let _ = mon.join();
            }
        }
        s.release_all();
        if let Some(d) = verdict_deadlock {
            obs.fail(
                if idle.load(Ordering::SeqCst) {
                    "drop/threads-not-exited"
                } else {
                    "deadlock-before-idle"
                },
                format!(
                    "{:?} W={} buffer={} k={} upstream={:?} {:?}: {d}",
                    c.stack, w, b, c.k, c.upstream, c.strategy
                ),
            );
            go_drop.store(true, Ordering::SeqCst);
            obs.poison();
            return;
        }
        if poisoned {
            go_drop.store(true, Ordering::SeqCst);
            obs.poison();
            return;
        }
        let _ = consumer.join();
        let after = max_after_drop.load(Ordering::SeqCst);
        if exceeded.load(Ordering::SeqCst) && !exceeded_before_drop.load(Ordering::SeqCst) {
            obs.fail(
                "drop/keeps-pulling",
                format!(
                    "{:?} W={} buffer={} k={} upstream={:?}: {} items pulled after the consumer dropped the iterator (bound {limit})",
                    c.stack, w, b, c.k, c.upstream, after
                ),
            );
        }
        // the items the consumer did get are the first k in order (C05 on the same stacks)
        let g = got.lock().unwrap().clone();
        let expect: Vec<u64> = (0..g.len()).map(super::c05::tag).collect();
        obs.check(g == expect, "prefix-wrong", || {
            format!("{:?}: consumer got {:?}", c.stack, &g[..g.len().min(10)])
        });
        if !ended_early.load(Ordering::SeqCst) {
            obs.check(g.len() == c.k, "prefix-length", || {
                format!("got {} of {} items", g.len(), c.k)
            });
        } else if !exceeded.load(Ordering::SeqCst) {
            obs.check(
                c.upstream.map(|n| n < c.k).unwrap_or(false) || c.upstream == Some(g.len()),
                "ended-early",
                || format!("iteration ended after {} items, upstream {:?}", g.len(), c.upstream),
            );
        }
        // all background threads exited <=> upstream iterator dropped
        let t = Instant::now();
        while !dropped.load(Ordering::SeqCst) && t.elapsed() < Duration::from_secs(10) {
            std::thread::sleep(Duration::from_micros(100));
        }
        if !dropped.load(Ordering::SeqCst) {
            obs.inconclusive("upstream iterator not dropped 10 s after the run ended");
            obs.poison();
        }
        if c.second_pipe.is_some() {
            // the second pipe needs milliseconds; 120 s is the one wall-clock bound used as a verdict
            // here (a second pipe that is wedged by the first one's shutdown never finishes)
            match aux_rx.recv_timeout(Duration::from_secs(120)) {
                Ok(Ok(())) => obs.tag("second-pipe-concurrently"),
                Ok(Err(e)) => obs.fail("two-pipes/second-pipe-wrong", e),
                Err(_) => {
                    obs.fail(
                        "two-pipes/second-pipe-did-not-finish",
                        "an independent second pipe did not finish within 120 s of the first one's shutdown",
                    );
                    obs.poison();
                }
            }
        }
        obs.distinct(
            "fault_points",
            hash64(&(&c.stack, w, b, c.k, c.upstream.is_none(), c.idle_before_drop)),
        );
        obs.nontrivial_if(c.k >= 1 && (w >= 2 || b >= 1) && ahead > 0);
        obs.max("max_lookahead_seen", ahead as u64);
        obs.max("max_pulled_after_drop", after as u64);
        obs.add("schedule_steps", steps);
        obs.tag(match c.stack {
            Stack::Pipe => "stack-pipe",
            Stack::Buffered => "stack-buffered",
            Stack::PipeBuffered => "stack-pipe+buffered",
        });
        obs.tag_if(c.upstream.is_none(), "endless-upstream");
        obs.tag_if(c.k == 0, "drop-before-first-item");
        obs.tag(if c.idle_before_drop { "drop-after-idle-phase" } else { "drop-in-mid-flight" });
        obs.tag_if(!c.slow.is_empty(), "slow-items-around-the-drop");
        obs.tag_if(ended_early.load(Ordering::SeqCst), "upstream-ended-before-k");
        obs.tag_if(b == 0 && with_buf, "buffer-size-0");
        obs.note(json!({
            "bound": limit, "max_lookahead": ahead, "pulled_when_idle": pulled_idle,
            "pulled_after_drop": after, "steps": steps,
        }));
    }
}

fn check_panic(c: &Case, obs: &mut Obs) {
    let exe = match std::env::current_exe() {
        Ok(e) => e,
        Err(e) => {
            obs.inconclusive(format!("current_exe: {e}"));
            return;
        }
    };
    let spec = serde_json::to_string(c).unwrap_or_default();
    let mut child = match std::process::Command::new(exe)
        .arg("child")
        .arg("C09")
        .arg(&spec)
        .stdin(std::process::Stdio::null())
        .stdout(std::process::Stdio::null())
        .stderr(std::process::Stdio::null())
        .spawn()
    {
        Ok(c) => c,
        Err(e) => {
            obs.inconclusive(format!("spawn child: {e}"));
            return;
        }
    };
    let t = Instant::now();
    let status = loop {
        match child.try_wait() {
            Ok(Some(st)) => break Some(st),
            Ok(None) => {
                if t.elapsed() > Duration::from_secs(90) {
                    let _ = child.kill();
                    let _ = child.wait();
                    break None;
                }
                std::thread::sleep(Duration::from_millis(2));
            }
            Err(_) => break None,
        }
    };
    let Some(status) = status else {
        obs.inconclusive("panic child neither ended nor reported a wedged state within 90 s");
        return;
    };
    use std::os::unix::process::ExitStatusExt;
    let desc = format!(
        "{:?} W={} buffer={} n={:?} panic_at={:?} prelude={}",
        c.stack, c.threads, c.buffer, c.upstream, c.panic_at, c.prelude
    );
    obs.tag_if(c.prelude == 1, "prelude-clean-pipe");
    obs.tag_if(c.prelude == 2, "prelude-clean-pipe-then-train_bpe");
    obs.tag_if(c.prelude == 3, "prelude-train_bpe");
    match (status.code(), status.signal()) {
        (Some(3), _) => obs.fail(
            "panic/consumer-wedged",
            format!("{desc}: worker panicked, process did not end, consumer blocked forever"),
        ),
        (Some(0), _) => {
            // neither blocked nor terminated: not what C09 is about (the lost item is C05's)
            obs.tag("panic-child-completed");
            obs.fail(
                "panic/swallowed",
                format!("{desc}: iteration completed although the processing function panicked"),
            );
        }
        (Some(5), _) => obs.inconclusive(format!("{desc}: child harness error")),
        (Some(_), _) | (None, Some(_)) => {
            obs.tag("process-terminated");
        }
        _ => obs.inconclusive("child status unknown"),
    }
    obs.nontrivial_if(c.threads >= 2);
    obs.distinct(
        "fault_points",
        hash64(&("panic", &c.stack, c.threads, c.buffer, &c.panic_at, c.upstream)),
    );
    obs.tag_if(c.panic_at.len() > 1, "two-panicking-items");
    obs.tag_if(c.panic_at.first() == Some(&0), "panic-at-first-item");
    obs.tag_if(
        c.upstream.map(|n| c.panic_at.contains(&(n - 1))).unwrap_or(false),
        "panic-at-last-item",
    );
    obs.note(json!({"child_exit": status.code(), "signal": status.signal()}));
}

/// child process of the panic lane: exit 1 comes from the repo's own panic hook
pub fn child(spec: &str) -> i32 {
    let Ok(c) = serde_json::from_str::<Case>(spec) else {
        return 5;
    };
    // earlier use of the crate in the same process (before the hooks are installed, so these
    // threads are not participants): the pipe built afterwards must be protected all the same
    if c.prelude == 1 || c.prelude == 2 {
        let src = MonSource {
            i: 0,
            n: 20,
            limit: usize::MAX,
            pulled: Arc::new(AtomicUsize::new(0)),
            consumed: Arc::new(AtomicUsize::new(0)),
            drop_mark: Arc::new(AtomicUsize::new(usize::MAX)),
            max_ahead: Arc::new(AtomicUsize::new(0)),
            max_after_drop: Arc::new(AtomicUsize::new(0)),
            exceeded: Arc::new(AtomicBool::new(false)),
            exceeded_before_drop: Arc::new(AtomicBool::new(false)),
            dropped: Arc::new(AtomicBool::new(false)),
        };
        let it = build(&Stack::Pipe, src, 2, 0, vec![], vec![]);
        if it.count() != 20 {
            return 5;
        }
    }
    if c.prelude >= 2 {
        let dir = std::env::temp_dir().join(format!("tuverif-{}", std::process::id()));
        let _ = std::fs::create_dir_all(&dir);
        let corpus = dir.join("c09-prelude.txt");
        let out = dir.join("c09-prelude.bin");
        if std::fs::write(&corpus, "ab ab abc abc abd\nab abc ab\n").is_err() {
            return 5;
        }
        let r = text_utils::tokenization::train_bpe(&[corpus.as_path()], 320, 60, out.as_path(), None, None, 2, false);
        let _ = std::fs::remove_dir_all(&dir);
        if r.is_err() {
            return 5;
        }
    }
    let s = sched::sched();
    s.ensure_installed();
    let w = c.threads as usize;
    let with_buf = c.stack != Stack::Pipe;
    s.reset(Mode::Chaos, w, with_buf, w.max(1));
    s.set_chaos(c.sseed, c.chaos_level);
    let src = MonSource {
        i: 0,
        n: c.upstream.unwrap_or(8),
        limit: usize::MAX,
        pulled: Arc::new(AtomicUsize::new(0)),
        consumed: Arc::new(AtomicUsize::new(0)),
        drop_mark: Arc::new(AtomicUsize::new(usize::MAX)),
        max_ahead: Arc::new(AtomicUsize::new(0)),
        max_after_drop: Arc::new(AtomicUsize::new(0)),
        exceeded: Arc::new(AtomicBool::new(false)),
        exceeded_before_drop: Arc::new(AtomicBool::new(false)),
        dropped: Arc::new(AtomicBool::new(false)),
    };
    // NOTE: no harness panic hook here: Pipe::new installs the repo's hook, which is the mechanism
    // under test
    let it = build(&c.stack, src, c.threads, c.buffer, c.panic_at.clone(), vec![]);
    let s2 = s.clone();
    std::thread::spawn(move || {
        // the consumer (main thread) registers itself with its first point
        if sched::free_running_stuck(&s2, 40, Duration::from_millis(25)).is_some() {
            std::process::exit(3);
        }
    });
    let mut n = 0usize;
    let mut it = it;
    loop {
        s.consumer_point(Pt::ConsBeforeRecv, n);
        match it.next() {
            Some(_) => {
                n += 1;
                s.consumer_point(Pt::ConsAfterRecvSome, n);
            }
            None => break,
        }
    }
    0
}

/// drop test without controller / clocks / proc files (used under Miri): take k items, drop the
/// iterator, wait (yielding) for the Drop of the upstream iterator, judge the pull counts
fn check_plain(c: &Case, obs: &mut Obs) {
    let w = if c.stack == Stack::Buffered { 0 } else { c.threads as usize };
    let b = if c.stack != Stack::Pipe { c.buffer } else { 0 };
    let limit = lookahead_bound(w, b);
    let pulled = Arc::new(AtomicUsize::new(0));
    let consumed = Arc::new(AtomicUsize::new(0));
    let drop_mark = Arc::new(AtomicUsize::new(usize::MAX));
    let max_ahead = Arc::new(AtomicUsize::new(0));
    let max_after_drop = Arc::new(AtomicUsize::new(0));
    let exceeded = Arc::new(AtomicBool::new(false));
    let dropped = Arc::new(AtomicBool::new(false));
    let src = MonSource {
        i: 0,
        n: c.upstream.unwrap_or(usize::MAX),
        limit,
        pulled: pulled.clone(),
        consumed: consumed.clone(),
        drop_mark: drop_mark.clone(),
        max_ahead: max_ahead.clone(),
        max_after_drop: max_after_drop.clone(),
        exceeded: exceeded.clone(),
        exceeded_before_drop: Arc::new(AtomicBool::new(false)),
        dropped: dropped.clone(),
    };
    let mut it = build(&c.stack, src, c.threads, c.buffer, vec![], vec![]);
    let mut got = vec![];
    for _ in 0..c.k {
        match it.next() {
            Some(v) => {
                got.push(v);
                consumed.fetch_add(1, Ordering::SeqCst);
            }
            None => break,
        }
    }
    // let the background threads run ahead for a while
    for _ in 0..2_000 {
        std::thread::yield_now();
    }
    drop_mark.store(pulled.load(Ordering::SeqCst), Ordering::SeqCst);
    drop(it);
    let mut spins = 0u32;
    while !dropped.load(Ordering::SeqCst) && !exceeded.load(Ordering::SeqCst) && spins < 3_000_000 {
        std::thread::yield_now();
        spins += 1;
    }
    let expect: Vec<u64> = (0..got.len()).map(super::c05::tag).collect();
    obs.check(got == expect, "prefix-wrong", || format!("{got:?}"));
    if exceeded.load(Ordering::SeqCst) {
        obs.fail(
            "pull-count-exceeds-bound",
            format!(
                "{:?} W={w} buffer={b} k={}: max ahead {} / after drop {} (bound {limit})",
                c.stack,
                c.k,
                max_ahead.load(Ordering::SeqCst),
                max_after_drop.load(Ordering::SeqCst)
            ),
        );
    } else if !dropped.load(Ordering::SeqCst) {
        obs.inconclusive("upstream iterator not dropped after 3e6 yields");
    }
    obs.nontrivial_if(c.k >= 1 && (w >= 2 || b >= 1));
}
