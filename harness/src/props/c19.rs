//! C19 — BPE training is greedy-correct and always emits a well-formed merge table.
//!
//! Observed: only the merge file written by `train_bpe` (loaded with `MergeOps::load`).
//! Oracle: offline replay of the written table against an independent recount of the corpus
//! (the incremental pair statistics of the repo are never consulted).
use crate::core::*;
use crate::gen;
use rand::seq::IndexedRandom;
use rand::Rng as _;
use serde::{Deserialize, Serialize};
use serde_json::json;
use std::collections::{BTreeMap, HashMap};
use std::path::PathBuf;
use std::sync::atomic::{AtomicU64, Ordering};
use text_utils::tokenization::{
    train_bpe, BPETokenizer, BPETokenizerConfig, MergeOps, SpecialConfig, Tokenize,
};
use text_utils::unicode::Normalization;
use text_utils::utils::SerializeMsgPack;

pub struct C19;

#[derive(Serialize, Deserialize, Clone, Debug)]
pub struct Case {
    /// generation class (informational; the check measures everything it tags)
    pub class: String,
    /// corpus files; every file is a list of lines (no '\n' inside a line)
    pub files: Vec<Vec<String>>,
    /// per file: terminate the last line with '\n'
    pub trailing_newline: Vec<bool>,
    pub max_lines_per_file: Option<usize>,
    pub vocab_size: usize,
    pub num_special_tokens: usize,
    /// true: Some(Normalization::NFKC) (corpus characters are NFKC-stable), false: None
    pub nfkc: bool,
    /// one training per entry, each judged on its own
    pub threads: Vec<u8>,
}

// ---------------------------------------------------------------------------------------
// independent recount + replay

type Tok = Vec<u8>;
type Pair = (Tok, Tok);
/// distinct corpus words as token sequences with their corpus frequency
type Seg = Vec<(Vec<Tok>, u64)>;

const MAX_BRANCHES: usize = 64;

/// lines that train_bpe is asked to read: the first `max_lines` lines of every file, in order
fn effective_lines(c: &Case) -> Vec<&str> {
    let k = c.max_lines_per_file.unwrap_or(usize::MAX);
    c.files
        .iter()
        .flat_map(|f| f.iter().take(k).map(|s| s.as_str()))
        .collect()
}

/// whitespace-prefixed words of a line: word 0 as is, every later word with one leading space
fn line_words(line: &str) -> Vec<String> {
    line.split_whitespace()
        .enumerate()
        .map(|(i, w)| if i == 0 { w.to_string() } else { format!(" {w}") })
        .collect()
}

fn recount(lines: &[&str]) -> BTreeMap<String, u64> {
    let mut m = BTreeMap::new();
    for l in lines {
        for w in line_words(l) {
            *m.entry(w).or_insert(0u64) += 1;
        }
    }
    m
}

fn initial_seg(words: &BTreeMap<String, u64>) -> Seg {
    words
        .iter()
        .map(|(w, n)| (w.bytes().map(|b| vec![b]).collect(), *n))
        .collect()
}

fn pair_counts(seg: &Seg) -> HashMap<Pair, u64> {
    let mut m: HashMap<Pair, u64> = HashMap::new();
    for (toks, n) in seg {
        let mut k = 0;
        while k + 1 < toks.len() {
            *m.entry((toks[k].clone(), toks[k + 1].clone())).or_insert(0) += *n;
            k += 1;
        }
    }
    m
}

/// standard BPE training step: every word, left to right, non-overlapping
fn apply_merge(seg: &Seg, p: &Pair) -> Seg {
    seg.iter()
        .map(|(toks, n)| {
            let mut out: Vec<Tok> = Vec::with_capacity(toks.len());
            let mut k = 0;
            while k < toks.len() {
                if k + 1 < toks.len() && toks[k] == p.0 && toks[k + 1] == p.1 {
                    let mut t = toks[k].clone();
                    t.extend_from_slice(&toks[k + 1]);
                    out.push(t);
                    k += 2;
                } else {
                    out.push(toks[k].clone());
                    k += 1;
                }
            }
            (out, *n)
        })
        .collect()
}

fn show(t: &[u8]) -> String {
    match std::str::from_utf8(t) {
        Ok(s) => format!("{s:?}"),
        Err(_) => format!("{t:02x?}"),
    }
}

fn show_pair(p: &Pair) -> String {
    format!("({}, {})", show(&p.0), show(&p.1))
}

fn show_top(counts: &HashMap<Pair, u64>, k: usize) -> String {
    let mut v: Vec<(&Pair, &u64)> = counts.iter().collect();
    v.sort_by(|a, b| b.1.cmp(a.1).then_with(|| a.0.cmp(b.0)));
    v.iter()
        .take(k)
        .map(|(p, f)| format!("{}={}", show_pair(p), f))
        .collect::<Vec<_>>()
        .join(" ")
}

#[derive(Default, Clone, Debug)]
struct ReplayStats {
    /// some step had >= 2 pairs of maximal frequency
    tie: bool,
    /// some merge had a previously merged token (>= 2 bytes) as operand
    merged_operand: bool,
    /// top frequency minus runner-up frequency at step 0 (None: fewer than two pairs)
    margin0: Option<u64>,
    /// smallest margin between the chosen maximum and the best other frequency over all steps
    min_margin: Option<u64>,
    /// at some step two different occurring pairs had the same concatenation
    coexist: bool,
}

struct Failure {
    depth: usize,
    signature: &'static str,
    detail: String,
}

struct Replay<'a> {
    entries: &'a [Tok],
    requested: usize,
    branches: usize,
    overflow: bool,
    branched: bool,
}

impl Replay<'_> {
    /// Ok(stats) if the entries i.. can be explained from segmentation `seg`
    fn step(&mut self, i: usize, seg: Seg, mut st: ReplayStats) -> Result<ReplayStats, Failure> {
        let counts = pair_counts(&seg);
        if i == self.entries.len() {
            if self.entries.len() < self.requested && !counts.is_empty() {
                return Err(Failure {
                    depth: i,
                    signature: "table/stopped-before-exhaustion",
                    detail: format!(
                        "table has {} entries, {} were requested, but pairs with positive frequency remain: {}",
                        self.entries.len(),
                        self.requested,
                        show_top(&counts, 4)
                    ),
                });
            }
            return Ok(st);
        }
        let entry = &self.entries[i];
        let maxf = counts.values().copied().max().unwrap_or(0);
        // all occurring pairs whose concatenation is the entry
        let mut same: Vec<(&Pair, u64)> = counts
            .iter()
            .filter(|(p, _)| p.0.len() + p.1.len() == entry.len() && [&p.0[..], &p.1[..]].concat() == *entry)
            .map(|(p, f)| (p, *f))
            .collect();
        same.sort();
        if same.is_empty() {
            return Err(Failure {
                depth: i,
                signature: if counts.is_empty() {
                    "table/entry-after-exhaustion"
                } else {
                    "table/pair-does-not-occur"
                },
                detail: format!(
                    "entry {i} = {} is not the concatenation of any adjacent pair of the corpus segmented by merges 0..{i}; occurring pairs: {}",
                    show(entry),
                    if counts.is_empty() { "none".to_string() } else { show_top(&counts, 4) }
                ),
            });
        }
        let cands: Vec<Pair> = same
            .iter()
            .filter(|(_, f)| *f == maxf)
            .map(|(p, _)| (*p).clone())
            .collect();
        if cands.is_empty() {
            return Err(Failure {
                depth: i,
                signature: "table/non-maximal-pair",
                detail: format!(
                    "entry {i} = {} has true frequency {} (as {}), maximal frequency is {maxf}; top pairs: {}",
                    show(entry),
                    same.iter().map(|(_, f)| *f).max().unwrap_or(0),
                    same.iter().map(|(p, _)| show_pair(p)).collect::<Vec<_>>().join("/"),
                    show_top(&counts, 4)
                ),
            });
        }
        if !st.coexist {
            let mut cat: Vec<Tok> = counts.keys().map(|p| [&p.0[..], &p.1[..]].concat()).collect();
            cat.sort();
            st.coexist = cat.windows(2).any(|w| w[0] == w[1]);
        }
        let n_max = counts.values().filter(|f| **f == maxf).count();
        st.tie |= n_max >= 2;
        let second = if n_max >= 2 {
            maxf
        } else {
            counts.values().copied().filter(|f| *f < maxf).max().unwrap_or(0)
        };
        if counts.len() >= 2 {
            let m = maxf - second;
            if i == 0 {
                st.margin0 = Some(m);
            }
            st.min_margin = Some(st.min_margin.map_or(m, |x| x.min(m)));
        }
        if cands.len() > 1 {
            self.branched = true;
        }
        let mut worst: Option<Failure> = None;
        for (bi, p) in cands.iter().enumerate() {
            if bi > 0 {
                self.branches += 1;
                if self.branches > MAX_BRANCHES {
                    self.overflow = true;
                    break;
                }
            }
            let mut st2 = st.clone();
            st2.merged_operand |= p.0.len() > 1 || p.1.len() > 1;
            match self.step(i + 1, apply_merge(&seg, p), st2) {
                Ok(s) => return Ok(s),
                Err(f) => {
                    if worst.as_ref().map_or(true, |w| f.depth > w.depth) {
                        worst = Some(f);
                    }
                }
            }
            if self.overflow {
                break;
            }
        }
        Err(worst.unwrap_or(Failure {
            depth: i,
            signature: "table/replay",
            detail: "no branch".into(),
        }))
    }
}

// ---------------------------------------------------------------------------------------
// generation

const LETTERS: &[&str] = &["a", "b", "c", "d", "e", "n", "ä", "é"];
const SEPARATORS: &[&str] = &[" ", " ", " ", " ", "\t", "  ", " \t", "\u{c}", "\u{b} ", "\r"];

fn zipf_pick<'a>(rng: &mut Rng, words: &'a [String]) -> &'a str {
    // weight of rank k is 1/(k+1)
    let total: f64 = (0..words.len()).map(|k| 1.0 / (k as f64 + 1.0)).sum();
    let mut x = rng.random::<f64>() * total;
    for (k, w) in words.iter().enumerate() {
        x -= 1.0 / (k as f64 + 1.0);
        if x <= 0.0 {
            return w;
        }
    }
    &words[words.len() - 1]
}

fn gen_word(rng: &mut Rng, alpha: &[&str], max_len: usize) -> String {
    if rng.random_range(0..10) < 3 {
        // repetitive word: a unit of 1-3 letters repeated 2-4 times, optionally with a tail
        // (adjacent and overlapping occurrences of the same pair inside one word)
        let u = rng.random_range(1..=3usize);
        let unit: String = (0..u).map(|_| *alpha.choose(rng).unwrap()).collect();
        let mut w = unit.repeat(rng.random_range(2..=4usize));
        if rng.random_bool(0.5) {
            w.push_str(alpha.choose(rng).unwrap());
        }
        if rng.random_bool(0.3) {
            w.insert_str(0, alpha.choose(rng).unwrap());
        }
        return w;
    }
    let n = rng.random_range(1..=max_len);
    (0..n).map(|_| *alpha.choose(rng).unwrap()).collect()
}

fn gen_line(rng: &mut Rng, words: &[String], nwords: usize, plain_ws: bool) -> String {
    let mut s = String::new();
    if !plain_ws && rng.random_range(0..8) == 0 {
        s.push_str(SEPARATORS.choose(rng).unwrap());
    }
    for k in 0..nwords {
        if k > 0 {
            s.push_str(if plain_ws { " " } else { SEPARATORS.choose(rng).unwrap() });
        }
        s.push_str(zipf_pick(rng, words));
    }
    if !plain_ws && rng.random_range(0..8) == 0 {
        s.push_str(SEPARATORS.choose(rng).unwrap());
    }
    s
}

/// number of non-overlapping-agnostic occurrences of the adjacent byte pair in the word
fn occ(word: &str, a: u8, b: u8) -> i64 {
    word.as_bytes().windows(2).filter(|w| w[0] == a && w[1] == b).count() as i64
}

/// append one-word lines until the two most frequent byte pairs of the unsegmented corpus differ
/// by exactly one (= the contribution of one such line): a lost or duplicated line then makes
/// the argmax of the first merge ambiguous or wrong
fn sharpen(rng: &mut Rng, lines: &mut Vec<String>, words: &[String]) {
    for _ in 0..40 {
        let refs: Vec<&str> = lines.iter().map(|s| s.as_str()).collect();
        let counts = pair_counts(&initial_seg(&recount(&refs)));
        let mut v: Vec<(Pair, u64)> = counts.into_iter().collect();
        v.sort_by(|a, b| b.1.cmp(&a.1).then_with(|| a.0.cmp(&b.0)));
        if v.len() < 2 {
            return;
        }
        let (p1, f1) = (&v[0].0, v[0].1);
        let (p2, f2) = (&v[1].0, v[1].1);
        if f1 - f2 == 1 {
            return;
        }
        // margin 0: favour p1; margin > 1: favour p2. Only words standing alone on a line are
        // added, so the word has no leading space.
        let (up, down) = if f1 == f2 { (p1, p2) } else { (p2, p1) };
        let gain = |w: &str| occ(w, up.0[0], up.1[0]) - occ(w, down.0[0], down.1[0]);
        let best: Vec<&String> = words.iter().filter(|w| gain(w) == 1).collect();
        let w = if let Some(w) = best.choose(rng) {
            (*w).clone()
        } else if let Ok(w) = String::from_utf8(vec![up.0[0], up.1[0]]) {
            if w.chars().any(char::is_whitespace) {
                return;
            }
            w
        } else {
            return;
        };
        let at = rng.random_range(0..=lines.len());
        lines.insert(at, w);
    }
}

fn gen_threads(rng: &mut Rng, n: usize, at_least_two: bool) -> Vec<u8> {
    const ALL: &[u8] = &[0, 1, 2, 3, 8, 32];
    const MULTI: &[u8] = &[2, 3, 8, 32];
    (0..n)
        .map(|k| {
            if at_least_two || k == 0 {
                *MULTI.choose(rng).unwrap()
            } else {
                *ALL.choose(rng).unwrap()
            }
        })
        .collect()
}

/// (vocab_size, num_special_tokens) with vocab_size - 256 - num_special_tokens == r (saturating)
fn sizes_for(rng: &mut Rng, r: usize) -> (usize, usize) {
    if r == 0 {
        return match rng.random_range(0..3) {
            0 => (256, rng.random_range(0..6)),
            1 => (320, 64 + rng.random_range(0..10)),
            _ => (0, rng.random_range(0..3)),
        };
    }
    let slack = rng.random_range(0..6usize);
    let vocab = (256 + r + slack).div_ceil(64) * 64;
    (vocab, vocab - 256 - r)
}

impl Prop for C19 {
    type Case = Case;
    const ID: &'static str = "C19";
    const RESETS_PANIC_HOOK: bool = true;

    fn lanes(tier: Tier) -> Vec<Lane> {
        vec![
            // measured: ~16 ms CPU per main case (2-3 trainings), ~50 ms per schedules case
            // (6 trainings, up to 32 threads each)
            Lane::new("main", tier.pick(4_000, 64_000))
                .cap(tier.pick(180, 1500))
                .floor(tier.pick(400, 8_000)),
            Lane::new("schedules", tier.pick(800, 12_000))
                .cap(tier.pick(180, 1500))
                .floor(tier.pick(100, 2_000)),
            // the main generator with 41 - 10 000 lines, up to 2500 distinct words, some lines
            // of up to 60 words and up to 2256 requested merges
            Lane::new("large", tier.pick(400, 8_000))
                .cap(tier.pick(180, 1500))
                .floor(tier.pick(25, 500)),
        ]
    }

    fn rule() -> &'static str {
        "corpora of 1-40 lines (1-3 files, optional max_lines_per_file) over a 2-6 letter alphabet \
         (ASCII letters, precomposed ä/é: NFKC-stable; with normalization=None additionally U+FB01), \
         2-10 distinct words of 1-6 letters (30%: a 1-3 letter unit repeated 2-4 times, up to 14 \
         letters) drawn with Zipfian repetition, 1-6 words per line or only one-word lines, mixed ASCII whitespace between words, leading/trailing whitespace and \
         empty lines; 40% of the corpora are padded with one-word lines until the two most frequent \
         byte pairs differ by exactly 1. Requested merges r = vocab_size-256-num_special_tokens in \
         {0, 1-6, 7-40, 56-64, 128-k, 256-k} (far below and far above what the corpus can supply). \
         Lane main: 2-3 trainings per corpus with num_threads from {0,1,2,3,8,32}; lane schedules: \
         20-40 one-word lines, 6 trainings with num_threads from {2,3,8,32}. Every written table is \
         judged on its own by an offline replay against an independent recount (ids 0..n-1, n<=r, \
         entry i = concatenation of a pair with positive maximal true frequency after merges 0..i-1, \
         nothing left when n<r), then a BPETokenizer built from the table must round-trip every \
         corpus word and line with valid ids and id_to_token==get_vocab. non-trivial = some \
         training of the case produced >= 3 merges of which one has a merged token as an operand \
         and passed through the full replay."
    }

    fn assumptions() -> Vec<&'static str> {
        vec![
            "MergeOps::load (rmp_serde) reads back what train_bpe saved; the table is observed only through it",
            "the corpus characters (ASCII letters, U+00E4, U+00E9) are fixed points of NFKC and of text::clean, so the oracle's split_whitespace recount sees the same words as the repo's clean+normalize+regex pipeline",
            "thread schedules are whatever the OS produces for 1-32 counting threads on short lines; they are not controlled (no hook inside train_bpe)",
            "if two maximal pairs concatenate to the same bytes the replay follows at most 64 branches, beyond that the case is inconclusive",
            "a training during which the case's own temporary files disappear (another process cleaning the temp dir; verified after every training by re-reading the corpus files) is repeated and not judged; counter temp-dir-lost-and-rebuilt",
        ]
    }

    fn generate(rng: &mut Rng, _tier: Tier, lane: &str) -> Case {
        let schedules = lane == "schedules";
        let nfkc = rng.random_bool(0.6);
        // alphabet
        let k = rng.random_range(2..=6usize);
        let mut alpha: Vec<&str> = Vec::new();
        while alpha.len() < k {
            let l = *LETTERS.choose(rng).unwrap();
            if !alpha.contains(&l) {
                alpha.push(l);
            }
        }
        if !nfkc && rng.random_range(0..4) == 0 {
            alpha.push("\u{fb01}");
        }
        // word list, most frequent first
        let nw = rng.random_range(2..=gen::sc(10));
        let max_len = *[2usize, 3, 4, 6, 6].choose(rng).unwrap();
        let mut words: Vec<String> = Vec::new();
        for _ in 0..nw {
            let w = gen_word(rng, &alpha, max_len);
            if !words.contains(&w) {
                words.push(w);
            }
        }
        let one_word_lines = schedules || rng.random_range(0..3) == 0;
        let nlines = if schedules {
            rng.random_range(20..=40usize)
        } else {
            match rng.random_range(0..10) {
                // `large` lane: 41 - 10 000 lines
                _ if gen::scale() > 1 => rng.random_range(41..=gen::sc(40)),
                0 => rng.random_range(1..=2usize),
                1..=4 => rng.random_range(3..=12usize),
                _ => rng.random_range(13..=40usize),
            }
        };
        let plain_ws = rng.random_range(0..3) == 0;
        let mut lines: Vec<String> = (0..nlines)
            .map(|_| {
                if !schedules && rng.random_range(0..25) == 0 {
                    return if rng.random_bool(0.5) { String::new() } else { " \t".to_string() };
                }
                let n = if one_word_lines {
                    1
                } else if gen::scale() > 1 && rng.random_range(0..20) == 0 {
                    rng.random_range(7..=60usize)
                } else {
                    rng.random_range(1..=6usize)
                };
                gen_line(rng, &words, n, plain_ws || schedules)
            })
            .collect();
        let sharp = schedules || rng.random_range(0..10) < 4;
        if sharp {
            sharpen(rng, &mut lines, &words);
        }
        // files
        let nfiles = if schedules {
            1
        } else {
            *[1usize, 1, 1, 2, 3].choose(rng).unwrap()
        };
        let mut files: Vec<Vec<String>> = vec![Vec::new(); nfiles];
        let mut cuts: Vec<usize> = (1..nfiles).map(|_| rng.random_range(0..=lines.len())).collect();
        cuts.sort();
        for (i, l) in lines.into_iter().enumerate() {
            let f = cuts.iter().filter(|c| **c <= i).count();
            files[f].push(l);
        }
        let trailing_newline: Vec<bool> = (0..nfiles).map(|_| rng.random_bool(0.7)).collect();
        let max_lines_per_file = if !schedules && rng.random_range(0..8) == 0 {
            Some(rng.random_range(0..=nlines))
        } else {
            None
        };
        // requested merges
        let r = match rng.random_range(0..100) {
            // `large` lane: up to 2256 requested merges
            0..=29 if gen::scale() > 1 => rng.random_range(257..=256 + gen::sc(8)),
            0..=5 => 0,
            6..=25 => rng.random_range(1..=6usize),
            26..=50 => rng.random_range(7..=40usize),
            51..=80 => rng.random_range(56..=64usize),
            81..=90 => 128 - rng.random_range(0..6usize),
            _ => 256 - rng.random_range(0..6usize),
        };
        let (vocab_size, num_special_tokens) = sizes_for(rng, r);
        let threads = if schedules {
            gen_threads(rng, 6, true)
        } else {
            let n = rng.random_range(2..=3);
            gen_threads(rng, n, false)
        };
        Case {
            class: format!(
                "{}{}{}",
                if schedules { "schedules" } else { "main" },
                if one_word_lines { "+one-word-lines" } else { "" },
                if sharp { "+sharpened" } else { "" }
            ),
            files,
            trailing_newline,
            max_lines_per_file,
            vocab_size,
            num_special_tokens,
            nfkc,
            threads,
        }
    }

    fn check(c: &Case, obs: &mut Obs) {
        // seeded delays at the schedule points of the counting threads (hook H5): three quarters of
        // the cases perturb the arrival order of lines / per-line results
        let h = hash64(&serde_json::to_string(c).unwrap_or_default());
        let s = crate::sched::sched();
        s.ensure_installed();
        // (corpora of more than 300 lines run without injected delays: one delay per line and
        // schedule point would cost CPU-minutes)
        let level = if c.files.iter().map(|f| f.len()).sum::<usize>() > 300 { 0 } else { (h % 4) as u8 };
        s.set_chaos_all(h, level);
        obs.tag_if(level != 0, "delay-injection-in-counting-threads");
        check_with_delays(c, obs);
        s.set_chaos_all(0, 0);
    }
}

fn check_with_delays(c: &Case, obs: &mut Obs) {
    {
        static COUNTER: AtomicU64 = AtomicU64::new(0);
        let dir: PathBuf = std::env::temp_dir()
            .join(format!("tuverif-{}", std::process::id()))
            .join(format!("c19-{}", COUNTER.fetch_add(1, Ordering::Relaxed)));
        if std::fs::create_dir_all(&dir).is_err() {
            obs.inconclusive("cannot create temp dir");
            return;
        }
        run_case(c, obs, &dir);
        let _ = std::fs::remove_dir_all(&dir);
    }
}

/// file contents of the corpus files
fn corpus_texts(c: &Case) -> Vec<String> {
    c.files
        .iter()
        .enumerate()
        .map(|(i, f)| {
            let mut s = f.join("\n");
            if !f.is_empty() && c.trailing_newline.get(i).copied().unwrap_or(true) {
                s.push('\n');
            }
            s
        })
        .collect()
}

fn materialise(dir: &std::path::Path, paths: &[PathBuf], texts: &[String]) -> bool {
    // retried: a concurrent cleaner may remove the directory between the two steps
    (0..3).any(|_| {
        std::fs::create_dir_all(dir).is_ok()
            && paths.iter().zip(texts).all(|(p, s)| std::fs::write(p, s).is_ok())
    })
}

/// the temporary directory and the corpus files are still what this case wrote (another process
/// cleaning /tmp must not be mistaken for a failure of train_bpe)
fn env_intact(dir: &std::path::Path, paths: &[PathBuf], texts: &[String]) -> bool {
    dir.is_dir()
        && paths
            .iter()
            .zip(texts)
            .all(|(p, s)| std::fs::read_to_string(p).is_ok_and(|x| x == *s))
}

/// everything of one training that touches the file system
enum Trained {
    /// the temporary files disappeared underneath the run: nothing can be concluded from it
    EnvBroken,
    Failed(String, String),
    Table(MergeOps, Result<BPETokenizer, (String, String)>),
}

#[allow(clippy::too_many_arguments)]
fn train_once(
    c: &Case,
    dir: &std::path::Path,
    paths: &[PathBuf],
    texts: &[String],
    out: &std::path::Path,
    norm: Option<Normalization>,
    threads: u8,
) -> Trained {
    let _ = std::fs::remove_file(out);
    let res = catch(|| {
        train_bpe(
            paths,
            c.vocab_size,
            c.num_special_tokens,
            out,
            c.max_lines_per_file,
            norm,
            threads,
            false,
        )
    });
    // train_bpe installs a printing panic hook: put the recording one back
    install_quiet_panic_hook();
    let failed = match res {
        Err((loc, msg)) => {
            let file = loc.split(':').next().unwrap_or("?").to_string();
            Some((
                format!("train_bpe/panic@{file}"),
                format!("threads={threads}: panic at {loc}: {msg}"),
            ))
        }
        Ok(Err(e)) => Some(("train_bpe/err".to_string(), format!("threads={threads}: {e:#}"))),
        Ok(Ok(())) => None,
    };
    if let Some((sig, detail)) = failed {
        return if env_intact(dir, paths, texts) {
            Trained::Failed(sig, detail)
        } else {
            Trained::EnvBroken
        };
    }
    let table = match MergeOps::load(out) {
        Ok(t) => t,
        Err(e) => {
            return if env_intact(dir, paths, texts) {
                Trained::Failed(
                    "table/not-written-or-unreadable".to_string(),
                    format!("threads={threads}: {e:#}"),
                )
            } else {
                Trained::EnvBroken
            };
        }
    };
    let tok = catch(|| {
        BPETokenizer::new(
            BPETokenizerConfig {
                merge_file: out.to_path_buf(),
                max_vocab_size: None,
                use_graphemes: true,
            },
            SpecialConfig::default(),
        )
    });
    let tok = match tok {
        Ok(Ok(t)) => Ok(t),
        Ok(Err(e)) => Err(("tokenizer/new-err".to_string(), format!("threads={threads}: {e:#}"))),
        Err((loc, msg)) => {
            let file = loc.split(':').next().unwrap_or("?").to_string();
            Err((
                format!("BPETokenizer::new/panic@{file}"),
                format!("threads={threads}: panic at {loc}: {msg}"),
            ))
        }
    };
    // checked after every training, successful or not: if the files vanished while the counting
    // threads were reading them the run produced a table for a different corpus
    if !(env_intact(dir, paths, texts) && out.is_file()) {
        return Trained::EnvBroken;
    }
    Trained::Table(table, tok)
}

fn run_case(c: &Case, obs: &mut Obs, dir: &std::path::Path) {
    // materialise the corpus
    let texts = corpus_texts(c);
    let paths: Vec<PathBuf> = (0..texts.len()).map(|i| dir.join(format!("corpus{i}.txt"))).collect();
    if !materialise(dir, &paths, &texts) {
        obs.inconclusive("cannot write corpus files");
        return;
    }
    // independent recount
    let lines = effective_lines(c);
    let words = recount(&lines);
    let seg0 = initial_seg(&words);
    let requested = c
        .vocab_size
        .saturating_sub(256)
        .saturating_sub(c.num_special_tokens);
    let norm = if c.nfkc { Some(Normalization::NFKC) } else { None };

    obs.tag_if(c.nfkc, "normalization-nfkc");
    obs.tag_if(!c.nfkc, "normalization-none");
    obs.tag_if(c.files.len() > 1, "multi-file");
    obs.tag_if(c.max_lines_per_file.is_some(), "max-lines-per-file");
    obs.tag_if(requested == 0, "zero-merges-requested");
    obs.tag_if(words.is_empty(), "empty-corpus");
    obs.tag_if(
        lines.len() >= 10 && lines.iter().all(|l| l.split_whitespace().count() <= 1),
        "one-word-lines>=10",
    );
    obs.tag_if(
        lines.iter().any(|l| l.contains(['\t', '\u{b}', '\u{c}', '\r']) || l.contains("  ")),
        "mixed-whitespace",
    );
    obs.tag_if(lines.iter().any(|l| !l.is_ascii()), "multi-byte-letters");
    obs.max("distinct-words", words.len() as u64);
    obs.max("lines", lines.len() as u64);

    let mut summary = vec![];
    for (run, &threads) in c.threads.iter().enumerate() {
        let out = dir.join(format!("merges{run}.bin"));
        let mut attempts = 0;
        let (table, tok) = loop {
            match train_once(c, dir, &paths, &texts, &out, norm, threads) {
                Trained::Table(t, k) => break (Some(t), Some(k)),
                Trained::Failed(sig, detail) => {
                    obs.fail(sig, detail);
                    break (None, None);
                }
                Trained::EnvBroken => {
                    attempts += 1;
                    obs.add("temp-dir-lost-and-rebuilt", 1);
                    if attempts >= 5 || !materialise(dir, &paths, &texts) {
                        obs.inconclusive(
                            "temporary corpus/merge files were removed by another process during the case",
                        );
                        return;
                    }
                }
            }
        };
        obs.add("trainings", 1);
        obs.max("threads", threads as u64);
        let (Some(table), Some(tok)) = (table, tok) else {
            continue;
        };
        let n = table.len();
        // ids exactly 0..n-1
        let mut by_id: Vec<(u32, &Vec<u8>)> = table.iter().map(|(k, v)| (*v, k)).collect();
        by_id.sort();
        let ids_ok = by_id.iter().enumerate().all(|(i, (id, _))| *id as usize == i);
        if !ids_ok {
            obs.fail(
                "table/ids-not-0..n-1",
                format!(
                    "threads={threads} requested={requested}: {} entries with ids {:?}: {}",
                    n,
                    by_id.iter().map(|(id, _)| *id).take(40).collect::<Vec<_>>(),
                    by_id
                        .iter()
                        .take(12)
                        .map(|(id, t)| format!("{}:{}", show(t), id))
                        .collect::<Vec<_>>()
                        .join(" ")
                ),
            );
            continue;
        }
        if n > requested {
            obs.fail(
                "table/more-merges-than-requested",
                format!("threads={threads}: {n} entries, requested {requested}"),
            );
            continue;
        }
        let entries: Vec<Tok> = by_id.iter().map(|(_, t)| (*t).clone()).collect();
        let mut rp = Replay {
            entries: &entries,
            requested,
            branches: 1,
            overflow: false,
            branched: false,
        };
        let st = match rp.step(0, seg0.clone(), ReplayStats::default()) {
            Ok(st) => st,
            Err(f) => {
                if rp.overflow {
                    obs.inconclusive(format!(
                        "replay needed more than {MAX_BRANCHES} branches (equal concatenations among maximal pairs)"
                    ));
                } else {
                    obs.fail(
                        f.signature,
                        format!("threads={threads} requested={requested} n={n}: {}", f.detail),
                    );
                }
                continue;
            }
        };
        obs.add("merges-replayed", n as u64);
        obs.max("merges", n as u64);
        obs.nontrivial_if(n >= 3 && st.merged_operand);
        obs.tag_if(n >= 3 && st.merged_operand, "training/>=3-merges-with-merged-operand");
        obs.tag_if(n < requested, "training/corpus-exhausted-before-n");
        obs.tag_if(n == requested && n > 0, "training/stopped-at-n");
        obs.tag_if(threads >= 2, "training/threads>=2");
        obs.tag_if(threads >= 2 && lines.len() >= 2 * threads as usize, "training/threads>=2-and-lines>=2x");
        obs.tag_if(st.tie, "training/tie-among-maximal-pairs");
        obs.tag_if(rp.branched, "training/equal-concatenation-branch");
        obs.tag_if(st.coexist, "training/equal-concatenation-pairs-coexist");
        obs.tag_if(st.margin0 == Some(1), "training/top-two-differ-by-1-at-step-0");
        obs.tag_if(st.min_margin == Some(1), "training/some-step-decided-by-1");
        summary.push(json!({"threads": threads, "n": n, "requested": requested,
            "exhausted": n < requested, "tie": st.tie,
            "first": entries.iter().take(4).map(|t| show(t)).collect::<Vec<_>>()}));

        // tokenizer built from the written table: lossless + vocabulary consistency
        check_tokenizer(obs, tok, &entries, &words, &lines);
    }
    obs.note(json!({"words": words.len(), "lines": lines.len(), "runs": summary}));
}

fn check_tokenizer(
    obs: &mut Obs,
    tok: Result<BPETokenizer, (String, String)>,
    entries: &[Tok],
    words: &BTreeMap<String, u64>,
    lines: &[&str],
) {
    let tok = match tok {
        Ok(t) => t,
        Err((sig, detail)) => {
            obs.fail(sig, detail);
            return;
        }
    };
    let Some(vs) = guarded(obs, "tokenizer/vocab_size", || tok.vocab_size()) else {
        return;
    };
    let vocab = match guarded(obs, "tokenizer/get_vocab", || tok.get_vocab()) {
        Some(Ok(v)) => v,
        Some(Err(e)) => {
            obs.fail("tokenizer/get_vocab-err", format!("{e:#}"));
            return;
        }
        None => return,
    };
    let nspecial = SpecialConfig::default().tokens.len();
    obs.check(
        vocab.len() == vs && vs == 256 + entries.len() + nspecial,
        "tokenizer/vocab-size",
        || {
            format!(
                "get_vocab has {} entries, vocab_size() = {vs}, expected 256 + {} merges + {nspecial} special",
                vocab.len(),
                entries.len()
            )
        },
    );
    for (i, e) in entries.iter().enumerate() {
        if vocab.get(256 + i) != Some(e) {
            obs.fail(
                "tokenizer/vocab-entry-differs-from-table",
                format!("get_vocab()[{}] = {:?}, table entry {i} = {}", 256 + i, vocab.get(256 + i).map(|t| show(t)), show(e)),
            );
            break;
        }
    }
    for id in 0..vs.min(vocab.len()) {
        let t = guarded(obs, "tokenizer/id_to_token", || tok.id_to_token(id as u32));
        match t {
            None => return,
            Some(t) => {
                if t.as_ref() != Some(&vocab[id]) {
                    obs.fail(
                        "tokenizer/id_to_token-differs-from-get_vocab",
                        format!("id {id}: id_to_token = {:?}, get_vocab = {}", t.map(|t| show(&t)), show(&vocab[id])),
                    );
                    break;
                }
            }
        }
    }
    for id in [vs as u64, vs as u64 + 1, vs as u64 + 300, u32::MAX as u64] {
        if let Some(Some(t)) = guarded(obs, "tokenizer/id_to_token", || tok.id_to_token(id as u32)) {
            obs.fail(
                "tokenizer/id_to_token-above-vocab",
                format!("id {id} >= vocab_size {vs}: id_to_token = {}", show(&t)),
            );
        }
    }
    for (i, e) in entries.iter().enumerate() {
        let Ok(text) = std::str::from_utf8(e) else {
            continue;
        };
        let id = 256 + i as u32;
        let back = guarded(obs, "tokenizer/token_to_id", || tok.token_to_id(text));
        if back.is_some() && back != Some(Some(id)) {
            obs.fail(
                "tokenizer/token_to_id",
                format!("token_to_id({text:?}) = {:?}, expected {id}", back.flatten()),
            );
            break;
        }
        match guarded(obs, "tokenizer/de_tokenize", || tok.de_tokenize(&[id], true)) {
            Some(Ok(d)) if d == text => {}
            Some(r) => {
                obs.fail(
                    "tokenizer/single-id-decode",
                    format!("de_tokenize([{id}]) = {r:?}, expected {text:?}"),
                );
                break;
            }
            None => break,
        }
    }
    // round trips: every corpus word (with its leading space where it has one), the bare word,
    // every raw line and its clean form
    let mut texts: Vec<String> = vec![];
    for w in words.keys() {
        texts.push(w.clone());
        if let Some(b) = w.strip_prefix(' ') {
            texts.push(b.to_string());
        }
    }
    for l in lines {
        texts.push(l.to_string());
        texts.push(l.split_whitespace().collect::<Vec<_>>().join(" "));
    }
    texts.sort();
    texts.dedup();
    for s in &texts {
        let ids = match guarded(obs, "tokenizer/tokenize", || tok.tokenize(s, true)) {
            None => return,
            Some(Err(e)) => {
                obs.fail("tokenizer/tokenize-err", format!("{s:?}: {e:#}"));
                return;
            }
            Some(Ok(t)) => t.token_ids,
        };
        if let Some(bad) = ids.iter().find(|id| **id as usize >= vs) {
            obs.fail(
                "tokenizer/id-out-of-vocab",
                format!("tokenize({s:?}) = {ids:?}: id {bad} >= vocab_size {vs}"),
            );
            return;
        }
        let dec = match guarded(obs, "tokenizer/de_tokenize", || tok.de_tokenize(&ids, true)) {
            None => return,
            Some(Err(e)) => {
                obs.fail("tokenizer/de_tokenize-err", format!("{s:?} -> {ids:?}: {e:#}"));
                return;
            }
            Some(Ok(d)) => d,
        };
        let expect = s.trim_end();
        if dec != expect {
            obs.fail(
                "tokenizer/round-trip",
                format!("tokenize({s:?}) = {ids:?} decodes to {dec:?}, expected {expect:?}"),
            );
            return;
        }
        let cat: Vec<u8> = ids
            .iter()
            .flat_map(|id| vocab.get(*id as usize).cloned().unwrap_or_default())
            .collect();
        if cat != expect.as_bytes() {
            obs.fail(
                "tokenizer/vocab-concatenation",
                format!("tokenize({s:?}) = {ids:?}: concatenated get_vocab entries are {}", show(&cat)),
            );
            return;
        }
        obs.add("round-trips", 1);
    }
}
