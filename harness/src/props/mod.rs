pub mod c05;
pub mod c09;
pub mod c12;
pub mod c13;

use crate::core::{Prop, Tier};
use crate::supervise::{Aggregate, SanitizerReport};

/// sanitizer / interpreter lanes that are not native worker shards (filled in by sanitize.rs)
pub fn extra_lanes<P: Prop>(_tier: Tier, _seed: u64, _agg: &mut Aggregate) -> Vec<SanitizerReport> {
    vec![]
}

/// helper child processes used by individual properties
pub fn child_main(id: &str, args: &[String]) -> i32 {
    match id {
        "C09" => c09::child(args.get(3).map(|s| s.as_str()).unwrap_or("")),
        _ => 2,
    }
}
