pub mod c01;
pub mod c02;
pub mod c03;
pub mod c04;
pub mod c05;
pub mod c06;
pub mod c07;
pub mod c08;
pub mod c09;
pub mod c10;
pub mod c11;
pub mod c12;
pub mod c13;
pub mod c14;
pub mod c15;
pub mod c16;
pub mod c17;
pub mod c18;
pub mod c19;
pub mod c20;

use crate::core::{Prop, Tier};
use crate::supervise::{Aggregate, SanitizerReport};

/// sanitizer / interpreter lanes that are not native worker shards (see sanitize.rs)
pub fn extra_lanes<P: Prop>(tier: Tier, seed: u64, agg: &mut Aggregate) -> Vec<SanitizerReport> {
    crate::sanitize::run::<P>(tier, seed, agg)
}

/// helper child processes used by individual properties
pub fn child_main(id: &str, args: &[String]) -> i32 {
    match id {
        "C08" => c08::child(args.get(3).map(|s| s.as_str()).unwrap_or("")),
        "C09" => c09::child(args.get(3).map(|s| s.as_str()).unwrap_or("")),
        _ => 2,
    }
}
