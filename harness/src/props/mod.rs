pub mod c12;

use crate::core::{Prop, Tier};
use crate::supervise::{Aggregate, SanitizerReport};

/// sanitizer / interpreter lanes that are not native worker shards (filled in by sanitize.rs)
pub fn extra_lanes<P: Prop>(_tier: Tier, _seed: u64, _agg: &mut Aggregate) -> Vec<SanitizerReport> {
    vec![]
}

/// helper child processes used by individual properties
pub fn child_main(_id: &str, _args: &[String]) -> i32 {
    2
}
