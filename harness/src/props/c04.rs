//! C04 — tokenizer vocabulary maps are mutually consistent bijections (byte, char, BPE).
//!
//! `Spec` / `gen_spec` are the same helpers as in c01.rs (would fit into gen.rs, kept here on
//! purpose); `gen_table` is a well-formed merge table generator (gen::merges of DESIGN.md).
use crate::core::*;
use rand::seq::{IndexedRandom, SliceRandom};
use rand::Rng as _;
use serde::{Deserialize, Serialize};
use serde_json::json;
use std::collections::{HashMap, HashSet};
use std::path::PathBuf;
use text_utils::tokenization::{
    tokenizer, BPETokenizer, BPETokenizerConfig, ByteGroups, ByteTokenizer,
    ByteTokenizerConfig, CharTokenizer, CharTokenizerConfig, GroupAggregation, MergeOps,
    SpecialConfig, TokenizeConfig, Tokenizer, TokenizerConfig,
};
use text_utils::utils::SerializeMsgPack;

pub struct C04;

/// serde mirror of the repo's SpecialConfig
#[derive(Serialize, Deserialize, Clone, Debug)]
pub struct Spec {
    pub pad: String,
    pub tokens: Vec<String>,
    pub prefix: Vec<String>,
    pub suffix: Vec<String>,
}

impl Spec {
    pub fn to_repo(&self) -> SpecialConfig {
        SpecialConfig {
            pad: self.pad.clone(),
            tokens: self.tokens.clone(),
            prefix: self.prefix.clone(),
            suffix: self.suffix.clone(),
        }
    }
    /// distinct spellings in order of first occurrence
    pub fn distinct(&self) -> Vec<String> {
        let mut seen = HashSet::new();
        self.tokens
            .iter()
            .filter(|t| seen.insert(t.as_str()))
            .cloned()
            .collect()
    }
    pub fn has_duplicates(&self) -> bool {
        self.distinct().len() != self.tokens.len()
    }
}

#[derive(Serialize, Deserialize, Clone, Debug)]
pub struct Case {
    /// "byte" | "char" | "bpe"
    pub kind: String,
    pub graphemes: bool,
    pub groups_cp: bool,
    pub agg_sum: bool,
    /// byte tokenizer
    pub pad_to: Option<usize>,
    /// char tokenizer
    pub unk: String,
    pub spec: Spec,
    /// build through `tokenizer(TokenizerConfig)` instead of the concrete constructor
    pub factory: bool,
    /// BPE: entry k is the merge with id k
    pub table: Vec<Vec<u8>>,
    /// BPE: one tokenizer is built and swept for each of these max_vocab_size values
    pub cuts: Vec<Option<usize>>,
}

const DEFAULT_SPECIALS: &[&str] = &["<unk>", "<bos>", "<eos>", "<pad>"];
const EXTRA_POOL: &[&str] = &[
    "<mask>", "<sep>", "<cls>", "[SEP]", "[MASK]", "</s>", "<s>", "||", "<lang:de>", "<ä>", "▁▁",
    "<extra_token_0>", "<extra_token_1>", "(x)", "a+b", ".*", "\\n", "<|endoftext|>", "$$", "^^",
    "<語>", "😀😀", "<PAD>",
];
const AMBIG_POOL: &[&str] = &[
    "<pad", "<pad>>", "<<pad>>", "<pad><eos>", "aa", "ab", "<p", ">x<", "pad", "<unk", "os><",
    "><", "aba",
];

pub fn gen_spec(rng: &mut Rng, ambiguous: bool) -> Spec {
    let mut tokens: Vec<String> = if rng.random_bool(0.75) {
        DEFAULT_SPECIALS.iter().map(|s| s.to_string()).collect()
    } else {
        let n = rng.random_range(1..=4);
        (0..n)
            .map(|_| {
                if rng.random_bool(0.5) {
                    DEFAULT_SPECIALS.choose(rng).unwrap().to_string()
                } else {
                    EXTRA_POOL.choose(rng).unwrap().to_string()
                }
            })
            .collect()
    };
    let n_extra = *[0usize, 0, 0, 1, 2, 3, 4].choose(rng).unwrap();
    for _ in 0..n_extra {
        tokens.push(EXTRA_POOL.choose(rng).unwrap().to_string());
    }
    if ambiguous {
        for _ in 0..rng.random_range(1..=3) {
            tokens.push(AMBIG_POOL.choose(rng).unwrap().to_string());
        }
    }
    if rng.random_bool(0.3) {
        let d = tokens.choose(rng).unwrap().clone();
        let i = rng.random_range(0..=tokens.len());
        tokens.insert(i, d);
    }
    if rng.random_bool(0.3) {
        tokens.shuffle(rng);
    }
    let pad = if rng.random_bool(0.97) {
        if tokens.iter().any(|t| t == "<pad>") && rng.random_bool(0.7) {
            "<pad>".to_string()
        } else {
            tokens.choose(rng).unwrap().clone()
        }
    } else {
        "<nopad>".to_string()
    };
    let list = |rng: &mut Rng| -> Vec<String> {
        let n = *[0usize, 0, 1, 1, 2, 3].choose(rng).unwrap();
        (0..n)
            .map(|_| {
                if rng.random_bool(0.985) {
                    tokens.choose(rng).unwrap().clone()
                } else {
                    "<missing>".to_string()
                }
            })
            .collect()
    };
    let prefix = list(rng);
    let suffix = list(rng);
    Spec {
        pad,
        tokens,
        prefix,
        suffix,
    }
}

/// well-formed table: ids 0..n-1, every entry is the concatenation of two earlier tokens
/// (single bytes of a tiny alphabet or earlier entries); entries may cut UTF-8 sequences
pub fn gen_table(rng: &mut Rng) -> Vec<Vec<u8>> {
    let n = match rng.random_range(0..20) {
        0 => 0,
        1..=9 => rng.random_range(1..=6),
        _ => rng.random_range(7..=24),
    };
    let mut symbols: Vec<&str> = vec!["a", "b", " "];
    for (s, p) in [("ä", 0.6), ("語", 0.3), ("😀", 0.2), ("c", 0.3), ("<", 0.15), (">", 0.15), ("é", 0.2)] {
        if rng.random_bool(p) {
            symbols.push(s);
        }
    }
    let mut base: Vec<Vec<u8>> = vec![];
    for s in symbols {
        for b in s.bytes() {
            if !base.contains(&vec![b]) {
                base.push(vec![b]);
            }
        }
    }
    let mut entries: Vec<Vec<u8>> = vec![];
    let mut attempts = 0;
    while entries.len() < n && attempts < 40 * n {
        attempts += 1;
        let pick = |rng: &mut Rng, entries: &Vec<Vec<u8>>| -> Vec<u8> {
            if !entries.is_empty() && rng.random_bool(0.45) {
                // biased towards recent entries: deeper merge trees
                let lo = if rng.random_bool(0.5) { entries.len() / 2 } else { 0 };
                entries[rng.random_range(lo..entries.len())].clone()
            } else {
                base.choose(rng).unwrap().clone()
            }
        };
        let mut e = pick(rng, &entries);
        e.extend(pick(rng, &entries));
        if e.len() <= 14 && !entries.contains(&e) {
            entries.push(e);
        }
    }
    entries
}

struct TmpFile(PathBuf);
impl Drop for TmpFile {
    fn drop(&mut self) {
        let _ = std::fs::remove_file(&self.0);
    }
}

fn byte_cfg(c: &Case) -> ByteTokenizerConfig {
    ByteTokenizerConfig {
        use_graphemes: c.graphemes,
        pad_to_multiple_of: c.pad_to,
        groups: if c.groups_cp {
            ByteGroups::CodePoints
        } else {
            ByteGroups::Bytes
        },
        aggregation: if c.agg_sum {
            GroupAggregation::Sum
        } else {
            GroupAggregation::Mean
        },
    }
}

struct Built {
    tok: Tokenizer,
    unk_id: Option<u32>,
}

fn build(c: &Case, merge_file: Option<&PathBuf>, max_vocab_size: Option<usize>) -> anyhow::Result<Built> {
    let special = c.spec.to_repo();
    match c.kind.as_str() {
        "byte" => {
            let cfg = byte_cfg(c);
            let tok: Tokenizer = if c.factory {
                tokenizer(TokenizerConfig {
                    tokenize: TokenizeConfig::Byte(cfg),
                    special,
                })?
            } else {
                Box::new(ByteTokenizer::new(cfg, special)?)
            };
            Ok(Built { tok, unk_id: None })
        }
        "char" => {
            let cfg = CharTokenizerConfig {
                use_graphemes: c.graphemes,
                unk_token: c.unk.clone(),
            };
            if c.factory {
                let tok = tokenizer(TokenizerConfig {
                    tokenize: TokenizeConfig::Character(cfg),
                    special,
                })?;
                Ok(Built { tok, unk_id: None })
            } else {
                let t = CharTokenizer::new(cfg, special)?;
                let unk_id = Some(t.unk_token_id());
                Ok(Built {
                    tok: Box::new(t),
                    unk_id,
                })
            }
        }
        _ => {
            let cfg = BPETokenizerConfig {
                merge_file: merge_file.cloned().unwrap_or_default(),
                max_vocab_size,
                use_graphemes: c.graphemes,
            };
            let tok: Tokenizer = if c.factory {
                tokenizer(TokenizerConfig {
                    tokenize: TokenizeConfig::BPE(cfg),
                    special,
                })?
            } else {
                Box::new(BPETokenizer::new(cfg, special)?)
            };
            Ok(Built { tok, unk_id: None })
        }
    }
}

/// at most one violation per signature and tokenizer
struct Once<'a> {
    obs: &'a mut Obs,
    seen: HashSet<String>,
    ctx: String,
}

impl Once<'_> {
    fn fail(&mut self, sig: String, detail: String) {
        if self.seen.insert(sig.clone()) {
            let d = format!("[{}] {detail}", self.ctx);
            self.obs.fail(sig, d);
        }
    }
}

#[derive(Default)]
struct Seen {
    tokenizers: u64,
    ids: u64,
    non_utf8: u64,
    binding_cuts: u64,
    extras: u64,
    kept_max: u64,
}

fn show(b: &[u8]) -> String {
    match std::str::from_utf8(b) {
        Ok(s) => format!("{s:?}"),
        Err(_) => format!("{b:?}"),
    }
}

fn sweep(c: &Case, built: &Built, max_vocab_size: Option<usize>, obs: &mut Obs, seen: &mut Seen) {
    let kind = c.kind.as_str();
    let tok = &built.tok;
    let mut o = Once {
        obs,
        seen: HashSet::new(),
        ctx: format!("max_vocab_size={max_vocab_size:?}"),
    };
    let vs = tok.vocab_size();
    let vocab = match catch(|| tok.get_vocab()) {
        Ok(Ok(v)) => v,
        Ok(Err(e)) => {
            o.fail(format!("{kind}/get_vocab/err"), format!("{e}"));
            return;
        }
        Err((loc, msg)) => {
            let file = loc.split(':').next().unwrap_or("?").to_string();
            o.fail(format!("{kind}/get_vocab/panic@{file}"), format!("panic at {loc}: {msg}"));
            return;
        }
    };
    seen.tokenizers += 1;
    if vocab.len() != vs {
        o.fail(
            format!("{kind}/get_vocab/len"),
            format!("get_vocab has {} entries, vocab_size() = {vs}", vocab.len()),
        );
    }
    // configured special spellings
    let mut specials = c.spec.distinct();
    if kind == "char" && !specials.contains(&c.unk) {
        specials.push(c.unk.clone());
    }
    let n_regular = if kind == "byte" {
        256
    } else {
        match vs.checked_sub(specials.len()) {
            Some(n) => n,
            None => {
                o.fail(
                    format!("{kind}/vocab_size/smaller-than-specials"),
                    format!("vocab_size {vs} < {} distinct special spellings", specials.len()),
                );
                return;
            }
        }
    };
    if vs < n_regular + specials.len() {
        o.fail(
            format!("{kind}/vocab_size/too-small"),
            format!("vocab_size {vs} < {n_regular} regular + {} special tokens", specials.len()),
        );
        return;
    }
    if kind == "byte" {
        seen.extras += (vs - 256 - specials.len()) as u64;
    }
    let special_set: HashSet<&[u8]> = specials.iter().map(|s| s.as_bytes()).collect();

    // --- regular part of the vocabulary
    let get = |id: usize| vocab.get(id).map(|v| v.as_slice());
    match kind {
        "byte" | "bpe" => {
            for b in 0..256usize {
                if get(b) != Some(&[b as u8][..]) {
                    o.fail(
                        format!("{kind}/regular-entry/byte"),
                        format!("get_vocab()[{b}] = {:?}", get(b).map(show)),
                    );
                }
            }
            if kind == "bpe" {
                let kept = n_regular.saturating_sub(256);
                seen.kept_max = seen.kept_max.max(kept as u64);
                let n = c.table.len();
                if kept > n {
                    o.fail(
                        "bpe/regular-entry/more-than-table".to_string(),
                        format!("{kept} merge entries in the vocabulary, table has {n}"),
                    );
                }
                let not_binding = match max_vocab_size {
                    None => true,
                    Some(l) => l >= 256 + c.spec.tokens.len() + n,
                };
                if not_binding && kept != n {
                    o.fail(
                        "bpe/regular-entry/table-incomplete".to_string(),
                        format!("{kept} of {n} merges in the vocabulary although max_vocab_size={max_vocab_size:?} does not bind"),
                    );
                }
                if kept < n {
                    seen.binding_cuts += 1;
                }
                for k in 0..kept.min(n) {
                    if get(256 + k) != Some(c.table[k].as_slice()) {
                        o.fail(
                            "bpe/regular-entry/merge".to_string(),
                            format!(
                                "get_vocab()[{}] = {:?}, merge {k} of the table is {}",
                                256 + k,
                                get(256 + k).map(show),
                                show(&c.table[k])
                            ),
                        );
                    }
                }
            }
        }
        _ => {
            let mut chars = HashSet::new();
            for id in 0..n_regular {
                let e = get(id).unwrap_or(&[]);
                let single = std::str::from_utf8(e)
                    .ok()
                    .and_then(|s| {
                        let mut it = s.chars();
                        match (it.next(), it.next()) {
                            (Some(ch), None) => Some(ch),
                            _ => None,
                        }
                    });
                match single {
                    Some(ch) if !special_set.contains(e) => {
                        if !chars.insert(ch) {
                            o.fail("char/regular-entry/duplicate".to_string(), format!("id {id}: {ch:?} twice"));
                        }
                    }
                    _ => o.fail(
                        "char/regular-entry/not-a-char".to_string(),
                        format!("get_vocab()[{id}] = {} (regular ids are 0..{n_regular})", show(e)),
                    ),
                }
            }
        }
    }

    // --- id_to_token against get_vocab for every id
    let top = vs as u64 + 300;
    for id in (0..top).chain([u32::MAX as u64]) {
        let id32 = id as u32;
        let got = match catch(|| tok.id_to_token(id32)) {
            Ok(g) => g,
            Err((loc, msg)) => {
                let file = loc.split(':').next().unwrap_or("?").to_string();
                o.fail(
                    format!("{kind}/id_to_token/panic@{file}"),
                    format!("id {id}: panic at {loc}: {msg}"),
                );
                continue;
            }
        };
        seen.ids += 1;
        let want = if (id as usize) < vs { get(id as usize) } else { None };
        if got.as_deref() != want {
            let where_ = if (id as usize) < n_regular {
                "regular"
            } else if (id as usize) < vs {
                "special"
            } else {
                "above-vocab"
            };
            o.fail(
                format!("{kind}/id_to_token/{where_}"),
                format!(
                    "id_to_token({id}) = {:?}, get_vocab()[{id}] = {:?} (vocab_size {vs}, regular ids 0..{n_regular})",
                    got.as_deref().map(show),
                    want.map(show)
                ),
            );
        }
    }

    // --- token_to_id inverts get_vocab on UTF-8 entries; single-id decoding
    let regular_set: HashSet<&[u8]> = vocab.iter().take(n_regular).map(|v| v.as_slice()).collect();
    for (id, e) in vocab.iter().enumerate() {
        let id32 = id as u32;
        let utf8 = std::str::from_utf8(e).ok();
        if utf8.is_none() {
            seen.non_utf8 += 1;
        }
        let collides = special_set.contains(e.as_slice()) && regular_set.contains(e.as_slice());
        if collides {
            o.obs.tag("special-spelling-equals-regular-token");
        }
        if let (Some(s), false) = (utf8, collides) {
            let got = tok.token_to_id(s);
            if got != Some(id32) {
                o.fail(
                    format!("{kind}/token_to_id/{}", if id < n_regular { "regular" } else { "special" }),
                    format!("token_to_id({s:?}) = {got:?}, but get_vocab()[{id}] is that token"),
                );
            }
        }
        match catch(|| tok.de_tokenize(&[id32], false)) {
            Err((loc, msg)) => {
                let file = loc.split(':').next().unwrap_or("?").to_string();
                o.fail(
                    format!("{kind}/de_tokenize-single/panic@{file}"),
                    format!("id {id} ({}): panic at {loc}: {msg}", show(e)),
                );
            }
            Ok(Ok(d)) => {
                if utf8.is_none() {
                    o.fail(
                        format!("{kind}/de_tokenize-single/ok-on-invalid-utf8"),
                        format!("id {id} ({}) decodes to {d:?}", show(e)),
                    );
                } else if d.as_bytes() != e.as_slice() {
                    o.fail(
                        format!(
                            "{kind}/de_tokenize-single/{}",
                            if id < n_regular { "regular" } else { "special" }
                        ),
                        format!("id {id} ({}) decodes to {d:?}", show(e)),
                    );
                }
            }
            Ok(Err(err)) => {
                if utf8.is_some() {
                    o.fail(
                        format!("{kind}/de_tokenize-single/err"),
                        format!("id {id} ({}): {err}", show(e)),
                    );
                }
            }
        }
    }
    // ids outside the vocabulary: must not panic (Ok/Err not prescribed)
    for id in [vs as u64, vs as u64 + 1, vs as u64 + 299, u32::MAX as u64] {
        if let Err((loc, msg)) = catch(|| tok.de_tokenize(&[id as u32], false)) {
            let file = loc.split(':').next().unwrap_or("?").to_string();
            o.fail(
                format!("{kind}/de_tokenize-single/panic@{file}"),
                format!("id {id} (outside the vocabulary of {vs}): panic at {loc}: {msg}"),
            );
        }
    }

    // --- special ids
    let mut by_id: HashMap<u32, &str> = HashMap::new();
    let mut id_of: HashMap<&str, u32> = HashMap::new();
    for s in &specials {
        let Some(id) = tok.token_to_id(s) else {
            o.fail(format!("{kind}/special/no-id"), format!("token_to_id({s:?}) is None"));
            continue;
        };
        id_of.insert(s.as_str(), id);
        if (id as usize) < n_regular || (id as usize) >= vs {
            o.fail(
                format!("{kind}/special/id-range"),
                format!("special {s:?} has id {id}, expected inside [{n_regular}, {vs})"),
            );
        }
        if get(id as usize) != Some(s.as_bytes()) {
            o.fail(
                format!("{kind}/special/entry"),
                format!("special {s:?} has id {id}, get_vocab()[{id}] = {:?}", get(id as usize).map(show)),
            );
        }
        if let Some(other) = by_id.insert(id, s.as_str()) {
            o.fail(
                format!("{kind}/special/ids-collide"),
                format!("specials {s:?} and {other:?} share id {id}"),
            );
        }
    }
    let in_range = |id: u32| (id as usize) >= n_regular && (id as usize) < vs;
    let pad = tok.pad_token_id();
    if !in_range(pad) || id_of.get(c.spec.pad.as_str()) != Some(&pad) {
        o.fail(
            format!("{kind}/pad_token_id"),
            format!(
                "pad_token_id() = {pad}, token_to_id({:?}) = {:?}, special ids are [{n_regular}, {vs})",
                c.spec.pad,
                id_of.get(c.spec.pad.as_str())
            ),
        );
    }
    for (what, ids, spellings) in [
        ("prefix_token_ids", tok.prefix_token_ids(), &c.spec.prefix),
        ("suffix_token_ids", tok.suffix_token_ids(), &c.spec.suffix),
    ] {
        let want: Vec<Option<u32>> = spellings.iter().map(|s| id_of.get(s.as_str()).copied()).collect();
        let got: Vec<Option<u32>> = ids.iter().map(|i| Some(*i)).collect();
        if got != want || ids.iter().any(|i| !in_range(*i)) {
            o.fail(
                format!("{kind}/{what}"),
                format!("{what}() = {ids:?} for {spellings:?}, expected {want:?} inside [{n_regular}, {vs})"),
            );
        }
    }
    if kind == "char" {
        let want = id_of.get(c.unk.as_str()).copied();
        if let Some(u) = built.unk_id {
            if Some(u) != want || !in_range(u) {
                o.fail(
                    "char/unk_token_id".to_string(),
                    format!("unk_token_id() = {u}, token_to_id({:?}) = {want:?}, special ids are [{n_regular}, {vs})", c.unk),
                );
            }
        }
    }
}

impl Prop for C04 {
    type Case = Case;
    const ID: &'static str = "C04";

    fn lanes(tier: Tier) -> Vec<Lane> {
        vec![
            Lane::new("main", tier.pick(20_000, 450_000))
                .cap(tier.pick(150, 900))
                .floor(tier.pick(2_000, 20_000)),
            // BPE tokenizers over merge tables of 65 300 - 70 000 entries, cut points around the
            // 2^16 id boundary
            Lane::new("large", tier.pick(32, 640))
                .cap(tier.pick(300, 1200))
                .floor(tier.pick(4, 80)),
        ]
    }

    fn rule() -> &'static str {
        "one tokenizer configuration per case: 30% byte (pad_to_multiple_of in {None,1,2,64,128,512}), \
         25% char (unk spelling inside or outside the special list), 45% BPE with a random well-formed \
         merge table of 0-24 entries over a tiny alphabet (entries may cut UTF-8 sequences), written with \
         the repo's SerializeMsgPack::save; special lists as in C01 (default four or pool, extras, \
         duplicates, shuffled, 10% overlapping spellings; spellings equal to a regular token are renamed). \
         BPE cases build one tokenizer for max_vocab_size = None and for EVERY cut point \
         256 + |tokens| + k, k = 0..=n, plus 0, 200, 256, one below the first cut and five above the last. \
         Every tokenizer is swept over all ids in [0, vocab_size + 300) and u32::MAX. 30% are built through \
         tokenizer(cfg). distinct = hash of the case; non-trivial = the id space has more than the fixed \
         part and the configured distinct specials in the plain way: duplicate special spellings, automatic \
         <extra_token_i> tokens, or a BPE vocabulary with at least one merge entry."
    }

    fn assumptions() -> Vec<&'static str> {
        vec![
            "regular ids are 0..256 for the byte tokenizer and everything below vocab_size - |distinct special spellings| for char and BPE",
            "which merges survive max_vocab_size is not prescribed beyond: a prefix of the table by merge id, the whole table when the limit is at least 256 + |special tokens| + |table|",
            "Ok/Err of de_tokenize for ids outside the vocabulary is not judged (only: no panic)",
            "special ids are those token_to_id reports for the configured spellings",
        ]
    }

    fn generate(rng: &mut Rng, _tier: Tier, lane: &str) -> Case {
        let large = lane == "large";
        let kind = match rng.random_range(0..100) {
            _ if large => "bpe",
            0..=29 => "byte",
            30..=54 => "char",
            _ => "bpe",
        };
        let ambiguous = rng.random_bool(0.1);
        let mut spec = gen_spec(rng, ambiguous);
        let table = if large {
            // a merge table beyond 2^16 entries (ids beyond u16)
            super::c03::table_huge(rng).1
        } else if kind == "bpe" {
            gen_table(rng)
        } else {
            vec![]
        };
        // keep special spellings distinct from regular tokens
        let rename = |s: &mut String| {
            if table.iter().any(|e| e.as_slice() == s.as_bytes()) || s.len() == 1 {
                *s = format!("<{}>", s.replace(['<', '>'], "_"));
            }
        };
        spec.tokens.iter_mut().for_each(rename);
        spec.prefix.iter_mut().for_each(rename);
        spec.suffix.iter_mut().for_each(rename);
        rename(&mut spec.pad);
        // constructor errors for non-member pad / prefix / suffix tokens are C01's business
        let toks = spec.tokens.clone();
        if !toks.contains(&spec.pad) {
            spec.pad = toks[0].clone();
        }
        spec.prefix.retain(|t| toks.contains(t));
        spec.suffix.retain(|t| toks.contains(t));
        let unk = match rng.random_range(0..10) {
            0..=5 => "<unk>".to_string(),
            6 => "<UNK>".to_string(),
            7 => "[UNK]".to_string(),
            8 => "\u{fffd}".to_string(),
            _ => spec.tokens.choose(rng).unwrap().clone(),
        };
        let mut cuts = vec![None];
        if kind == "bpe" {
            let base = 256 + spec.tokens.len();
            let n = table.len();
            if large {
                // cut points around the 2^16 id boundary instead of every cut point
                for k in [65_535 - base, 65_536 - base, 65_537 - base, 65_280, 65_281, n - 1, n] {
                    cuts.push(Some(base + k.min(n)));
                }
            } else {
                for k in 0..=n {
                    cuts.push(Some(base + k));
                }
            }
            cuts.extend([Some(0), Some(200), Some(256), Some(base - 1), Some(base + n + 5)]);
        }
        Case {
            kind: kind.to_string(),
            graphemes: rng.random_bool(0.5),
            groups_cp: rng.random_bool(0.5),
            agg_sum: rng.random_bool(0.3),
            pad_to: *[None, None, Some(1), Some(2), Some(64), Some(128), Some(512)]
                .choose(rng)
                .unwrap(),
            unk,
            spec,
            factory: rng.random_bool(0.3),
            table,
            cuts,
        }
    }

    fn check(c: &Case, obs: &mut Obs) {
        let mut members: HashSet<&str> = c.spec.tokens.iter().map(|s| s.as_str()).collect();
        if c.kind == "char" {
            members.insert(c.unk.as_str());
        }
        let valid = members.contains(c.spec.pad.as_str())
            && c.spec.prefix.iter().all(|t| members.contains(t.as_str()))
            && c.spec.suffix.iter().all(|t| members.contains(t.as_str()));
        // merge file
        let mut tmp = None;
        if c.kind == "bpe" {
            let dir = std::env::temp_dir().join(format!("tuverif-{}", std::process::id()));
            if let Err(e) = std::fs::create_dir_all(&dir) {
                obs.inconclusive(format!("cannot create {}: {e}", dir.display()));
                return;
            }
            let path = dir.join(format!("c04-{:016x}.merges", hash64(&c.table)));
            let ops: MergeOps = c
                .table
                .iter()
                .enumerate()
                .map(|(k, e)| (e.clone(), k as u32))
                .collect();
            if ops.len() != c.table.len() {
                obs.inconclusive("generated table has duplicate entries");
                return;
            }
            if let Err(e) = ops.save(&path) {
                obs.inconclusive(format!("cannot write merge file: {e}"));
                return;
            }
            tmp = Some(TmpFile(path));
        }
        let merge_file = tmp.as_ref().map(|t| &t.0);
        let mut seen = Seen::default();
        let mut built_any = false;
        for cut in &c.cuts {
            let Some(built) = guarded(obs, &format!("{}/new", c.kind), || build(c, merge_file, *cut)) else {
                continue;
            };
            let built = match built {
                Ok(b) => b,
                Err(e) => {
                    if valid {
                        obs.fail(format!("{}/new/err-on-valid-config", c.kind), format!("max_vocab_size={cut:?}: {e}"));
                    } else {
                        obs.tag("ctor-err-legit");
                    }
                    continue;
                }
            };
            if !valid {
                obs.tag("ctor-ok-on-invalid-config");
                continue;
            }
            built_any = true;
            sweep(c, &built, *cut, obs, &mut seen);
        }
        drop(tmp);
        if !built_any {
            return;
        }
        obs.tag(match c.kind.as_str() {
            "byte" => "byte",
            "char" => "char",
            _ => "bpe",
        });
        obs.tag_if(c.factory, "via-factory");
        obs.tag_if(c.spec.has_duplicates(), "dup-specials");
        obs.tag_if(seen.extras > 0, "auto-extra-tokens");
        obs.tag_if(c.kind == "byte" && c.pad_to.is_some(), "pad_to");
        obs.tag_if(seen.non_utf8 > 256 * seen.tokenizers, "non-utf8-merge-entries");
        obs.tag_if(seen.binding_cuts > 0, "max_vocab_size-binds");
        obs.tag_if(c.kind == "char" && !c.spec.tokens.contains(&c.unk), "unk-outside-special-list");
        obs.tag_if(!c.spec.prefix.is_empty() || !c.spec.suffix.is_empty(), "prefix-or-suffix");
        obs.nontrivial_if(c.spec.has_duplicates() || seen.extras > 0 || seen.kept_max > 0);
        obs.add("tokenizers", seen.tokenizers);
        obs.add("ids-swept", seen.ids);
        obs.add("cuts-that-bind", seen.binding_cuts);
        obs.max("merge-entries", seen.kept_max);
        obs.note(json!({
            "kind": c.kind,
            "tokenizers": seen.tokenizers,
            "ids_swept": seen.ids,
            "table_entries": c.table.len(),
            "cuts_that_bind": seen.binding_cuts,
            "auto_extra_tokens": seen.extras,
            "non_utf8_entries": seen.non_utf8,
        }));
    }
}
