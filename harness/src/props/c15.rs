//! C15 — spelling corruption makes one bounded edit and never touches protected positions.
//!
//! Oracle: allowed-outcome set. For (word, enabled kinds, providers, exclusion set) every legal
//! single edit is enumerated together with the exclusion set the statement prescribes; the
//! observed (word, set) of `edit_word` must be "unchanged" or a member. The enumeration works on
//! the vector of characters of the word (splice of vectors), not on byte offsets / run-length
//! encoded cluster lengths as the repo does.
use crate::core::*;
use crate::gen::{self, chars_of};
use rand::seq::IndexedRandom;
use rand::{Rng as _, SeedableRng};
use rand_chacha::ChaCha8Rng;
use serde::{Deserialize, Serialize};
use serde_json::json;
use std::borrow::Cow;
use std::collections::{BTreeSet, HashMap, HashSet};
use std::path::PathBuf;
use text_utils::corrupt::{edit_word, DeleteEdits, GetEdits, InsertEdits, ReplaceEdits, SwapEdits};
use text_utils::data::preprocessing::{
    preprocessing, Part, PreprocessingFnConfig, SpellingCorruptionMode,
};
use text_utils::data::{TextDataInfo, TrainData};
use text_utils::unicode::CharString;

pub struct C15;

/// Edits whose result re-segments (grapheme mode only: e.g. inserting U+0301 after "e", or a Hangul
/// leading consonant before another one, merges two characters into one) make edit_word's index
/// arithmetic disagree with the segmentation of the word it returns. The statement's index clauses
/// ("all within the new word", excluded characters unaltered at their re-indexed positions) are
/// judged there too, under class-specific signatures (`edit_word/grapheme-resegmentation/...`), so
/// that this recorded finding cannot mask any other violation of the index clauses.
const JUDGE_RESEGMENTATION: bool = true;

const BOW: &str = "<bow>";
const EOW: &str = "<eow>";

#[derive(Serialize, Deserialize, Clone, Debug)]
pub struct InsCtx {
    pub prev: String,
    pub cur: String,
    pub edits: Vec<String>,
    pub weights: Vec<f64>,
}

#[derive(Serialize, Deserialize, Clone, Debug)]
pub struct RepCtx {
    pub prev: String,
    pub cur: String,
    pub next: String,
    pub edits: Vec<String>,
    pub weights: Vec<f64>,
}

#[derive(Serialize, Deserialize, Clone, Debug)]
pub struct EditCase {
    pub word: String,
    pub graphemes: bool,
    /// seed of the ChaCha8 stream handed to every edit_word call of the chain
    pub seed: u64,
    /// None = pass `None` as exclusion set
    pub exclude: Option<Vec<usize>>,
    /// one entry per chain step; bit 0 insert, 1 delete, 2 replace, 3 swap
    pub masks: Vec<u8>,
    pub ins: Vec<InsCtx>,
    pub rep: Vec<RepCtx>,
    pub full_delete: bool,
    /// index into DEL_PREDS / SWAP_PREDS
    pub del_pred: u8,
    pub swap_pred: u8,
}

#[derive(Serialize, Deserialize, Clone, Debug)]
pub struct PipeCase {
    /// 0 artificial, 1 realistic, 2 mixed
    pub mode: u8,
    pub prob: f64,
    pub full_delete: bool,
    pub char_edit_prob: f64,
    pub temperature: f64,
    pub art_prob: f64,
    /// content of the characters file ("prev cur next<TAB>freq" lines); None = no file
    pub chars_file: Option<String>,
    /// content of the misspellings file (JSON)
    pub misspellings_file: String,
    pub target_part: bool,
    pub texts: Vec<String>,
    pub seeds: Vec<u64>,
}

#[derive(Serialize, Deserialize, Clone, Debug)]
pub struct Case {
    pub lane: String,
    pub edit: Option<EditCase>,
    pub pipe: Option<PipeCase>,
}

// ---------------------------------------------------------------------------------------
// predicates handed to DeleteEdits / SwapEdits (plain fn pointers, as in corrupt_spelling)

fn d_always(_: &str) -> bool {
    true
}
fn d_never(_: &str) -> bool {
    false
}
fn d_ascii(s: &str) -> bool {
    s.is_ascii()
}
fn d_not_a(s: &str) -> bool {
    s != "a"
}
const DEL_PREDS: [fn(&str) -> bool; 4] = [d_always, d_never, d_ascii, d_not_a];

fn s_always(_: &str, _: &str) -> bool {
    true
}
fn s_never(_: &str, _: &str) -> bool {
    false
}
fn s_differ(a: &str, b: &str) -> bool {
    a != b
}
fn s_first_ascii(a: &str, _: &str) -> bool {
    a.is_ascii()
}
const SWAP_PREDS: [fn(&str, &str) -> bool; 4] = [s_always, s_never, s_differ, s_first_ascii];

const KIND_NAMES: [&str; 4] = ["insert", "delete", "replace", "swap"];
const MASK_TAGS: [&str; 16] = [
    "kinds:none", "kinds:I", "kinds:D", "kinds:ID", "kinds:R", "kinds:IR", "kinds:DR", "kinds:IDR",
    "kinds:S", "kinds:IS", "kinds:DS", "kinds:IDS", "kinds:RS", "kinds:IRS", "kinds:DRS",
    "kinds:IDRS",
];
const EDIT_TAGS: [&str; 4] = ["edit:insert", "edit:delete", "edit:replace", "edit:swap"];

// ---------------------------------------------------------------------------------------
// generation

/// single code points (code point mode: everything is a character of its own)
const CP_POOL: &[&str] = &[
    "a", "b", "c", "x", "ä", "ß", "Ж", "語", "𝒳", "😀", "İ", "स", "\u{301}", "\u{308}", "\u{200d}",
    "\u{fe0f}", "\u{94d}", "🇩", "🇪", "ᄀ", "\u{1161}",
];
/// grapheme clusters that never merge with a neighbour from this pool
const G_SAFE_POOL: &[&str] = &[
    "a", "b", "c", "x", "ä", "ß", "Ж", "語", "𝒳", "e\u{301}", "a\u{308}", "👍🏽", "🇩🇪", "각",
    "👨\u{200d}👩\u{200d}👧", "❤\u{fe0f}", "स\u{94d}ते",
];
/// grapheme mode, robustness: pieces that do merge with neighbours
const G_UNSAFE_POOL: &[&str] = &[
    "a", "e", "\u{301}", "\u{308}", "\u{200d}", "🇩", "🇪", "ᄀ", "\u{1161}", "\r", "\n", "😀",
    "\u{fe0f}", "e\u{301}",
];

fn pick_weight(rng: &mut Rng) -> f64 {
    *[1.0, 1.0, 1.0, 2.0, 0.5, 0.25, 0.0].choose(rng).unwrap()
}

fn gen_weights(rng: &mut Rng, n: usize) -> Vec<f64> {
    let mut w: Vec<f64> = (0..n).map(|_| pick_weight(rng)).collect();
    if w.iter().all(|x| *x == 0.0) {
        // WeightedIndex needs a positive total: an all-zero row is a malformed table
        let i = rng.random_range(0..n);
        w[i] = 1.0;
    }
    w
}

fn gen_edit_case(rng: &mut Rng) -> EditCase {
    let graphemes = rng.random_bool(0.5);
    let pool: &'static [&'static str] = if !graphemes {
        CP_POOL
    } else if rng.random_range(0..100) < 12 {
        G_UNSAFE_POOL
    } else {
        G_SAFE_POOL
    };
    let mut alpha: Vec<&'static str> = vec![];
    if rng.random_bool(0.55) {
        alpha.push("a");
        if rng.random_bool(0.7) {
            alpha.push("b");
        }
    }
    let target = rng.random_range(2..=4);
    let mut guard = 0;
    while alpha.len() < target && guard < 50 {
        guard += 1;
        let u = *pool.choose(rng).unwrap();
        if !alpha.contains(&u) {
            alpha.push(u);
        }
    }
    let nunits = match rng.random_range(0..100) {
        0..=6 => 0,
        7..=16 => 1,
        17..=26 => 2,
        _ => rng.random_range(3..=8),
    };
    let mut word = String::new();
    for _ in 0..nunits {
        word.push_str(alpha.choose(rng).unwrap());
    }
    // keep the word at <= 8 characters in its own mode (pieces of the unsafe pool only merge)
    let wchars: Vec<String> = chars_of(&word, graphemes).iter().map(|s| s.to_string()).collect();
    let n = wchars.len();

    // context symbols: alphabet units and the real characters of the word
    let mut syms: Vec<String> = alpha.iter().map(|s| s.to_string()).collect();
    for c in &wchars {
        if !syms.contains(c) {
            syms.push(c.clone());
        }
    }
    let mut prevs = syms.clone();
    prevs.push(BOW.to_string());
    let mut nexts = syms.clone();
    nexts.push(EOW.to_string());
    let unit = |rng: &mut Rng| -> &'static str {
        if rng.random_range(0..10) == 0 {
            "z"
        } else {
            *alpha.choose(rng).unwrap()
        }
    };

    let dens = [0.15, 0.4, 0.8, 1.0];
    let p_ins = *dens.choose(rng).unwrap();
    let mut ins = vec![];
    for p in &prevs {
        for c in &nexts {
            if !rng.random_bool(p_ins) {
                continue;
            }
            let ne = rng.random_range(1..=3);
            let mut edits = vec![];
            for _ in 0..ne {
                let k = if rng.random_range(0..10) < 3 { rng.random_range(2..=3) } else { 1 };
                let mut s = String::new();
                for _ in 0..k {
                    s.push_str(unit(rng));
                }
                edits.push(s);
            }
            let weights = gen_weights(rng, ne);
            ins.push(InsCtx { prev: p.clone(), cur: c.clone(), edits, weights });
        }
    }
    // contexts that can match nowhere
    for (p, c) in [(EOW, BOW), ("q", "a"), (BOW, "q"), (EOW, EOW), (BOW, BOW)] {
        if rng.random_bool(0.4) {
            ins.push(InsCtx {
                prev: p.to_string(),
                cur: c.to_string(),
                edits: vec!["N".to_string()],
                weights: vec![1.0],
            });
        }
    }
    let p_rep = *dens.choose(rng).unwrap();
    let mut rep = vec![];
    for p in &prevs {
        for c in &syms {
            for nx in &nexts {
                if !rng.random_bool(p_rep) {
                    continue;
                }
                let ne = rng.random_range(1..=3);
                let mut edits = vec![];
                for _ in 0..ne {
                    let k = match rng.random_range(0..100) {
                        0..=14 => 0,
                        15..=34 => 2,
                        _ => 1,
                    };
                    let mut s = String::new();
                    for _ in 0..k {
                        s.push_str(unit(rng));
                    }
                    edits.push(s);
                }
                let weights = gen_weights(rng, ne);
                rep.push(RepCtx {
                    prev: p.clone(),
                    cur: c.clone(),
                    next: nx.clone(),
                    edits,
                    weights,
                });
            }
        }
    }
    for (p, c, nx) in [(EOW, "a", BOW), ("q", "a", "q"), (BOW, EOW, EOW), ("a", "q", "a")] {
        if rng.random_bool(0.4) {
            rep.push(RepCtx {
                prev: p.to_string(),
                cur: c.to_string(),
                next: nx.to_string(),
                edits: vec!["N".to_string()],
                weights: vec![1.0],
            });
        }
    }

    let exclude = if rng.random_range(0..10) == 0 {
        None
    } else {
        let q = *[0.0, 0.2, 0.2, 0.35, 0.5, 0.9, 1.0].choose(rng).unwrap();
        Some((0..n).filter(|_| rng.random_bool(q)).collect())
    };
    let steps = rng.random_range(1..=6);
    let base: u8 = if rng.random_range(0..100) < 35 { 15 } else { rng.random_range(0..16) };
    let constant = rng.random_bool(0.7);
    let masks = (0..steps)
        .map(|_| if constant { base } else { rng.random_range(0..16) })
        .collect();
    EditCase {
        word,
        graphemes,
        seed: rng.random(),
        exclude,
        masks,
        ins,
        rep,
        full_delete: rng.random_bool(0.5),
        del_pred: *[0u8, 0, 0, 1, 2, 3].choose(rng).unwrap(),
        swap_pred: *[0u8, 0, 0, 1, 2, 3].choose(rng).unwrap(),
    }
}

const PIPE_LETTERS: &[&str] = &["a", "b", "c", "d", "ä", "é", "ß", "Ж"];
const PIPE_OTHER: &[&str] = &["-", ".", "1", "'", "e\u{301}", "語"];

fn gen_pipe_word(rng: &mut Rng, alpha: &[&str]) -> String {
    let n = match rng.random_range(0..10) {
        0 => 1,
        1 => 2,
        // `large` lane: 1 in 8 words is up to 10 times longer
        _ if gen::scale() > 1 && rng.random_range(0..8) == 0 => rng.random_range(8..=70),
        _ => rng.random_range(3..=7),
    };
    (0..n).map(|_| *alpha.choose(rng).unwrap()).collect()
}

fn gen_pipe_case(rng: &mut Rng) -> PipeCase {
    let mut alpha: Vec<&str> = vec!["a", "b"];
    for _ in 0..rng.random_range(1..=3) {
        let u = *PIPE_LETTERS.choose(rng).unwrap();
        if !alpha.contains(&u) {
            alpha.push(u);
        }
    }
    if rng.random_bool(0.5) {
        let u = *PIPE_OTHER.choose(rng).unwrap();
        alpha.push(u);
    }
    let ntexts = rng.random_range(1..=3);
    let mut texts = vec![];
    let mut vocab: Vec<String> = vec![];
    for _ in 0..ntexts {
        let nw = match rng.random_range(0..12) {
            0 => 0,
            1 => 1,
            // `large` lane: texts of up to 300 words (the repo compiles a regex per word)
            _ => rng.random_range(2..=gen::sc(8).min(300)),
        };
        let mut ws = vec![];
        for _ in 0..nw {
            let w = if !vocab.is_empty() && rng.random_bool(0.3) {
                vocab.choose(rng).unwrap().clone()
            } else {
                gen_pipe_word(rng, &alpha)
            };
            vocab.push(w.clone());
            ws.push(w);
        }
        texts.push(ws.join(" "));
    }
    // characters file: 3-grams over the alphabet, frequencies with many ties
    let chars_file = if rng.random_range(0..10) < 8 {
        let dens = *[0.2, 0.5, 0.9].choose(rng).unwrap();
        let mut lines = vec![];
        let mut prevs = alpha.clone();
        prevs.push(BOW);
        let mut nexts = alpha.clone();
        nexts.push(EOW);
        let mut curs = alpha.clone();
        if rng.random_bool(0.3) {
            curs.push("zz");
        }
        for p in &prevs {
            for c in &curs {
                for nx in &nexts {
                    if rng.random_bool(dens) {
                        let f = *[1usize, 1, 1, 2, 2, 5, 5, 40].choose(rng).unwrap();
                        lines.push(format!("{p} {c} {nx}\t{f}"));
                    }
                }
            }
        }
        if rng.random_bool(0.2) {
            // dominates the total so that the frequency-1 entries fall below the 0.01% threshold
            lines.push(format!("{BOW} a {EOW}\t{}", 1_000_000));
        }
        if lines.is_empty() {
            lines.push(format!("{BOW} a {EOW}\t1"));
        }
        Some(lines.join("\n") + "\n")
    } else {
        None
    };
    let mut missp = serde_json::Map::new();
    for w in &vocab {
        if rng.random_bool(0.3) {
            let k = rng.random_range(1..=3);
            let v: Vec<String> = (0..k).map(|_| gen_pipe_word(rng, &alpha)).collect();
            missp.insert(w.clone(), json!(v));
        }
    }
    for _ in 0..rng.random_range(0..3) {
        // short alphabetic keys: hit as parts of words such as "ab-ba"
        let key: String = (0..rng.random_range(1..=2))
            .map(|_| *["a", "b", "ä"].choose(rng).unwrap())
            .collect();
        missp.insert(key, json!([gen_pipe_word(rng, &alpha)]));
    }
    let nseeds = rng.random_range(1..=3);
    let seeds = (0..nseeds)
        .map(|_| match rng.random_range(0..10) {
            0 => 0,
            1 => u64::MAX,
            _ => rng.random(),
        })
        .collect();
    PipeCase {
        mode: *[0u8, 0, 1, 2, 2].choose(rng).unwrap(),
        prob: *[0.2, 0.5, 1.0, 1.0, 7.5].choose(rng).unwrap(),
        full_delete: rng.random_bool(0.5),
        char_edit_prob: *[0.0, 0.2, 0.5, 1.0].choose(rng).unwrap(),
        temperature: *[0.5, 1.0, 2.0].choose(rng).unwrap(),
        art_prob: *[0.0, 0.3, 0.7, 1.0].choose(rng).unwrap(),
        chars_file,
        misspellings_file: serde_json::Value::Object(missp).to_string(),
        target_part: rng.random_bool(0.3),
        texts,
        seeds,
    }
}

// ---------------------------------------------------------------------------------------
// oracle

fn ins_lookup<'a>(t: &'a [InsCtx], prev: &str, cur: &str) -> Option<&'a InsCtx> {
    t.iter().rev().find(|c| c.prev == prev && c.cur == cur)
}

fn rep_lookup<'a>(t: &'a [RepCtx], prev: &str, cur: &str, next: &str) -> Option<&'a RepCtx> {
    t.iter().rev().find(|c| c.prev == prev && c.cur == cur && c.next == next)
}

#[derive(Clone, Debug)]
struct Hit {
    kind: usize,
    pos: usize,
    /// characters of the inserted / replacement string
    k: usize,
    /// the observed word segments into exactly the pieces of this candidate
    additive: bool,
}

struct StepVerdict {
    unchanged: bool,
    hit: Option<Hit>,
    resegmented: bool,
}

/// candidate = splice: w[..pos] + chars(s) + w[pos+removed..]
#[allow(clippy::too_many_arguments)]
fn splice_candidate(
    w: &[&str],
    excl: &BTreeSet<usize>,
    graphemes: bool,
    kind: usize,
    pos: usize,
    removed: usize,
    s: &str,
    out_word: &str,
    out_chars: &[&str],
    out_set: &BTreeSet<usize>,
    word_match: &mut bool,
    hits: &mut Vec<Hit>,
) {
    let sc = chars_of(s, graphemes);
    let k = sc.len();
    let mut pieces: Vec<&str> = Vec::with_capacity(w.len() + k);
    pieces.extend_from_slice(&w[..pos]);
    pieces.extend_from_slice(&sc);
    pieces.extend_from_slice(&w[pos + removed..]);
    if pieces.concat() != out_word {
        return;
    }
    *word_match = true;
    // the set the statement prescribes
    let mut set = BTreeSet::new();
    for &j in excl {
        if j < pos {
            set.insert(j);
        } else if j >= pos + removed {
            set.insert(j - removed + k);
        }
    }
    for l in 0..k {
        set.insert(pos + l);
    }
    if &set == out_set {
        hits.push(Hit { kind, pos, k, additive: pieces == out_chars });
    }
}

#[allow(clippy::too_many_arguments)]
fn judge_step(
    obs: &mut Obs,
    ec: &EditCase,
    mask: u8,
    word: &str,
    excl: &BTreeSet<usize>,
    out_word: &str,
    out_set_raw: &HashSet<usize>,
) -> StepVerdict {
    let g = ec.graphemes;
    let w = chars_of(word, g);
    let n = w.len();
    let out_chars = chars_of(out_word, g);
    let out_set: BTreeSet<usize> = out_set_raw.iter().copied().collect();
    let unchanged = out_word == word && &out_set == excl;
    let mut word_match = out_word == word;
    let mut hits: Vec<Hit> = vec![];

    if mask & 1 != 0 {
        // insertion positions: every gap whose context has a table row (the larger legal set: an
        // insertion alters no existing character; the protection clause is asserted below)
        for pos in 0..=n {
            let prev = if pos == 0 { BOW } else { w[pos - 1] };
            let cur = if pos == n { EOW } else { w[pos] };
            if let Some(row) = ins_lookup(&ec.ins, prev, cur) {
                for s in &row.edits {
                    splice_candidate(
                        &w, excl, g, 0, pos, 0, s, out_word, &out_chars, &out_set,
                        &mut word_match, &mut hits,
                    );
                }
            }
        }
    }
    if mask & 2 != 0 && (ec.full_delete || n > 1) {
        let pred = DEL_PREDS[ec.del_pred as usize % 4];
        for pos in 0..n {
            if !excl.contains(&pos) && pred(w[pos]) {
                splice_candidate(
                    &w, excl, g, 1, pos, 1, "", out_word, &out_chars, &out_set, &mut word_match,
                    &mut hits,
                );
            }
        }
    }
    if mask & 4 != 0 {
        for pos in 0..n {
            if excl.contains(&pos) {
                continue;
            }
            let prev = if pos == 0 { BOW } else { w[pos - 1] };
            let next = if pos + 1 == n { EOW } else { w[pos + 1] };
            if let Some(row) = rep_lookup(&ec.rep, prev, w[pos], next) {
                for s in &row.edits {
                    splice_candidate(
                        &w, excl, g, 2, pos, 1, s, out_word, &out_chars, &out_set,
                        &mut word_match, &mut hits,
                    );
                }
            }
        }
    }
    if mask & 8 != 0 {
        let pred = SWAP_PREDS[ec.swap_pred as usize % 4];
        for pos in 0..n.saturating_sub(1) {
            if excl.contains(&pos) || excl.contains(&(pos + 1)) || !pred(w[pos], w[pos + 1]) {
                continue;
            }
            let mut pieces = w.clone();
            pieces.swap(pos, pos + 1);
            if pieces.concat() != out_word {
                continue;
            }
            word_match = true;
            let mut set = excl.clone();
            set.insert(pos);
            set.insert(pos + 1);
            if set == out_set {
                hits.push(Hit { kind: 3, pos, k: 2, additive: pieces == out_chars });
            }
        }
    }

    let describe = || {
        format!(
            "word={word:?} chars={w:?} graphemes={g} mask={mask:#06b} exclude={excl:?} full_delete={} \
             del_pred={} swap_pred={} -> word={out_word:?} chars={out_chars:?} set={out_set:?}",
            ec.full_delete, ec.del_pred, ec.swap_pred
        )
    };
    if !unchanged && hits.is_empty() {
        if word_match {
            obs.fail(
                "edit_word/exclusion-set-not-prescribed",
                format!(
                    "the new word is the old word or one legal edit of it, but the returned exclusion \
                     set is not the one any such edit prescribes: {}",
                    describe()
                ),
            );
        } else {
            obs.fail(
                "edit_word/not-unchanged-nor-one-legal-edit",
                format!(
                    "the new word is neither the old word nor reachable by one legal edit of an \
                     enabled kind: {}",
                    describe()
                ),
            );
        }
        return StepVerdict { unchanged, hit: None, resegmented: false };
    }
    if unchanged {
        return StepVerdict { unchanged, hit: None, resegmented: false };
    }
    // protection clause, on the re-segmented observed word
    let hit = hits.iter().find(|h| h.additive).unwrap_or(&hits[0]).clone();
    let resegmented = !hit.additive;
    if !resegmented || JUDGE_RESEGMENTATION {
        let new_len = out_chars.len();
        if let Some(bad) = out_set.iter().find(|i| **i >= new_len) {
            obs.fail(
                if resegmented {
                    "edit_word/grapheme-resegmentation/exclusion-index-outside-new-word"
                } else {
                    "edit_word/exclusion-index-outside-new-word"
                },
                format!("index {bad} >= new length {new_len}: {}", describe()),
            );
        }
        let (removed, k) = match hit.kind {
            0 => (0, hit.k),
            1 => (1, 0),
            2 => (1, hit.k),
            _ => (0, 0),
        };
        for &j in excl {
            let nj = if hit.kind == 3 || j < hit.pos { j } else { j + k - removed };
            let same = out_chars.get(nj).map(|c| *c == w[j]).unwrap_or(false);
            if !same || !out_set.contains(&nj) {
                obs.fail(
                    if resegmented {
                        "edit_word/grapheme-resegmentation/protected-character-altered"
                    } else {
                        "edit_word/protected-character-altered"
                    },
                    format!(
                        "excluded character {j} ({:?}) is not found unaltered and excluded at its \
                         re-indexed position {nj}: {}",
                        w[j],
                        describe()
                    ),
                );
                break;
            }
        }
    }
    StepVerdict { unchanged, hit: Some(hit), resegmented }
}

fn check_providers(
    obs: &mut Obs,
    ec: &EditCase,
    insert: &InsertEdits,
    replace: &ReplaceEdits,
    word: &str,
) -> u64 {
    let g = ec.graphemes;
    let w = chars_of(word, g);
    let n = w.len();
    let cs = CharString::new(word, g);
    let mut calls = 0;
    for idx in 0..=n + 2 {
        calls += 1;
        let got = guarded(obs, "InsertEdits::get_edits", || {
            insert.get_edits(&cs, &idx).map(|(e, wt)| (e.clone(), wt.clone()))
        });
        let Some(got) = got else { continue };
        if idx > n {
            // beyond the word: only "no arithmetic fault" is demanded
            continue;
        }
        let prev = if idx == 0 { BOW } else { w[idx - 1] };
        let cur = if idx == n { EOW } else { w[idx] };
        let want = ins_lookup(&ec.ins, prev, cur).map(|r| (r.edits.clone(), r.weights.clone()));
        obs.tag_if(idx == 0 && want.is_some(), "provider:insert-bow-context-hit");
        obs.tag_if(idx == n && want.is_some(), "provider:insert-eow-context-hit");
        if got != want {
            obs.fail(
                "InsertEdits::get_edits/wrong-context-row",
                format!(
                    "word={word:?} chars={w:?} idx={idx}: context ({prev:?},{cur:?}) -> table row \
                     {want:?}, provider returned {got:?}"
                ),
            );
        }
    }
    if n > 0 {
        for idx in 0..=n + 2 {
            calls += 1;
            let got = guarded(obs, "ReplaceEdits::get_edits", || {
                replace.get_edits(&cs, &idx).map(|(e, wt)| (e.clone(), wt.clone()))
            });
            let Some(got) = got else { continue };
            if idx >= n {
                continue;
            }
            let prev = if idx == 0 { BOW } else { w[idx - 1] };
            let next = if idx + 1 == n { EOW } else { w[idx + 1] };
            let want = rep_lookup(&ec.rep, prev, w[idx], next)
                .map(|r| (r.edits.clone(), r.weights.clone()));
            obs.tag_if(idx == 0 && want.is_some(), "provider:replace-bow-context-hit");
            obs.tag_if(idx + 1 == n && want.is_some(), "provider:replace-eow-context-hit");
            if got != want {
                obs.fail(
                    "ReplaceEdits::get_edits/wrong-context-row",
                    format!(
                        "word={word:?} chars={w:?} idx={idx}: context ({prev:?},{:?},{next:?}) -> \
                         table row {want:?}, provider returned {got:?}",
                        w[idx]
                    ),
                );
            }
        }
    }
    calls
}

fn check_edit(ec: &EditCase, obs: &mut Obs) {
    let g = ec.graphemes;
    let insert = InsertEdits {
        insertions: ec
            .ins
            .iter()
            .map(|c| {
                (
                    (Cow::Owned(c.prev.clone()), Cow::Owned(c.cur.clone())),
                    (c.edits.clone(), c.weights.clone()),
                )
            })
            .collect::<HashMap<_, _>>(),
    };
    let replace = ReplaceEdits {
        replacements: ec
            .rep
            .iter()
            .map(|c| {
                (
                    (
                        Cow::Owned(c.prev.clone()),
                        Cow::Owned(c.cur.clone()),
                        Cow::Owned(c.next.clone()),
                    ),
                    (c.edits.clone(), c.weights.clone()),
                )
            })
            .collect::<HashMap<_, _>>(),
    };
    let delete = DeleteEdits {
        full_delete: ec.full_delete,
        can_delete: DEL_PREDS[ec.del_pred as usize % 4],
    };
    let swap = SwapEdits { can_swap: SWAP_PREDS[ec.swap_pred as usize % 4] };

    let n0 = chars_of(&ec.word, g).len();
    obs.tag_if(g, "mode:graphemes");
    obs.tag_if(!g, "mode:code-points");
    obs.tag_if(n0 == 0, "word:empty");
    obs.tag_if(n0 == 1, "word:single-character");
    obs.tag_if(!ec.word.is_ascii(), "word:multi-byte");
    obs.tag_if(g && chars_of(&ec.word, true).len() != ec.word.chars().count(), "word:multi-code-point-cluster");
    obs.tag_if(ec.exclude.is_none(), "exclude:None");
    let init: BTreeSet<usize> = ec.exclude.clone().unwrap_or_default().into_iter().collect();
    obs.tag_if(ec.exclude.is_some() && init.is_empty(), "exclude:empty");
    obs.tag_if(n0 > 0 && init.len() == n0, "exclude:all");
    obs.tag_if(!init.is_empty() && init.len() < n0, "exclude:proper-subset");
    obs.tag_if(ec.full_delete, "delete:full_delete");
    if init.iter().any(|i| *i >= n0) {
        // a replayed / hand-written case outside the quantifier
        obs.inconclusive("initial exclusion set has an index outside the word");
        return;
    }

    let mut rng = ChaCha8Rng::seed_from_u64(ec.seed);
    let mut word = ec.word.clone();
    let mut excl = init.clone();
    let mut first = true;
    let mut kinds_seen: Vec<usize> = vec![];
    let mut trace = vec![word.clone()];
    let mut calls = 0u64;
    let mut provider_calls = check_providers(obs, ec, &insert, &replace, &word);
    let mut max_len = n0;
    for &mask in &ec.masks {
        let arg: Option<HashSet<usize>> = if first && ec.exclude.is_none() {
            None
        } else {
            Some(excl.iter().copied().collect())
        };
        first = false;
        calls += 1;
        obs.tag(MASK_TAGS[(mask & 15) as usize]);
        let res = guarded(obs, "edit_word", || {
            edit_word(
                &word,
                g,
                &mut rng,
                if mask & 1 != 0 { Some(&insert) } else { None },
                if mask & 2 != 0 { Some(&delete) } else { None },
                if mask & 4 != 0 { Some(&replace) } else { None },
                if mask & 8 != 0 { Some(&swap) } else { None },
                arg,
            )
        });
        let Some((new_word, new_set)) = res else {
            break;
        };
        let v = judge_step(obs, ec, mask, &word, &excl, &new_word, &new_set);
        if !obs.ok() {
            break;
        }
        obs.tag_if(v.unchanged, "outcome:unchanged");
        if let Some(h) = &v.hit {
            obs.tag(EDIT_TAGS[h.kind]);
            kinds_seen.push(h.kind);
            let n = chars_of(&word, g).len();
            obs.tag_if(h.kind == 0 && h.pos == 0, "insert:at-word-start");
            obs.tag_if(h.kind == 0 && h.pos == n, "insert:at-word-end");
            obs.tag_if(h.kind == 0 && h.k > 1, "insert:multi-character");
            obs.tag_if(h.kind == 0 && n == 0, "insert:into-empty-word");
            obs.tag_if(h.kind == 2 && h.k == 0, "replace:by-empty-string");
            obs.tag_if(h.kind == 2 && h.k > 1, "replace:multi-character");
            obs.tag_if(h.kind == 2 && (h.pos == 0 || h.pos + 1 == n), "replace:at-word-boundary");
            obs.tag_if(h.kind == 1 && n == 1, "delete:last-character");
            obs.tag_if(!excl.is_empty(), "edit:with-excluded-positions");
            obs.tag_if(
                h.kind != 3 && excl.iter().any(|j| *j > h.pos) && new_word != word,
                "edit:shifts-excluded-indices",
            );
        }
        obs.tag_if(new_word.is_empty() && !word.is_empty(), "outcome:word-became-empty");
        obs.tag_if(v.resegmented, "robustness:grapheme-resegmentation");
        word = new_word;
        excl = new_set.into_iter().collect();
        trace.push(word.clone());
        let len = chars_of(&word, g).len();
        max_len = max_len.max(len);
        provider_calls += check_providers(obs, ec, &insert, &replace, &word);
        if excl.iter().any(|i| *i >= len) {
            // only reachable through re-segmentation (otherwise reported above): the pair is no
            // longer an input inside the quantifier
            break;
        }
    }
    let mut distinct_kinds = kinds_seen.clone();
    distinct_kinds.sort();
    distinct_kinds.dedup();
    obs.nontrivial_if(kinds_seen.len() >= 2 && distinct_kinds.len() >= 2 && !init.is_empty());
    obs.tag_if(kinds_seen.len() >= 4, "chain:4+-actual-edits");
    obs.add("edit_word-calls", calls);
    obs.add("get_edits-calls", provider_calls);
    obs.add("actual-edits", kinds_seen.len() as u64);
    obs.max("max-word-characters", max_len as u64);
    obs.note(json!({
        "trace": trace,
        "edits": kinds_seen.iter().map(|k| KIND_NAMES[*k]).collect::<Vec<_>>(),
        "final_exclusion_set": excl,
    }));
}

fn tmp_dir() -> PathBuf {
    std::env::temp_dir().join(format!("tuverif-{}", std::process::id()))
}

fn check_pipe(pc: &PipeCase, obs: &mut Obs) {
    let dir = tmp_dir().join("c15");
    if std::fs::create_dir_all(&dir).is_err() {
        obs.inconclusive("cannot create temp dir");
        return;
    }
    let chars_path = dir.join("characters.txt");
    let missp_path = dir.join("misspellings.json");
    let mut ok = std::fs::write(&missp_path, &pc.misspellings_file).is_ok();
    if let Some(c) = &pc.chars_file {
        ok &= std::fs::write(&chars_path, c).is_ok();
    }
    if !ok {
        obs.inconclusive("cannot write temp files");
        let _ = std::fs::remove_dir_all(&dir);
        return;
    }
    let cf = pc.chars_file.as_ref().map(|_| chars_path.clone());
    let mode = match pc.mode {
        0 => SpellingCorruptionMode::Artificial(pc.char_edit_prob, pc.temperature, cf),
        1 => SpellingCorruptionMode::Realistic(missp_path.clone()),
        _ => SpellingCorruptionMode::Mixed(
            pc.art_prob,
            pc.char_edit_prob,
            pc.temperature,
            cf,
            missp_path.clone(),
        ),
    };
    obs.tag(["pipeline:artificial", "pipeline:realistic", "pipeline:mixed"][pc.mode.min(2) as usize]);
    obs.tag_if(pc.chars_file.is_none(), "pipeline:no-characters-file");
    let part = if pc.target_part { Part::Target } else { Part::Input };
    let cfg = PreprocessingFnConfig::SpellingCorruption(part, pc.prob, pc.full_delete, mode);
    let f1 = guarded(obs, "preprocessing(SpellingCorruption)", || preprocessing(cfg.clone()));
    let f2 = guarded(obs, "preprocessing(SpellingCorruption)", || preprocessing(cfg.clone()));
    let mut changed = 0u64;
    let mut calls = 0u64;
    let mut sample = vec![];
    if let (Some(f1), Some(f2)) = (f1, f2) {
        'outer: for text in &pc.texts {
            for &seed in &pc.seeds {
                let mut outs: Vec<String> = vec![];
                for f in [&f1, &f2, &f1] {
                    calls += 1;
                    let r = guarded(obs, "spelling_corruption", || {
                        f(
                            TrainData::new(text.clone(), None),
                            TextDataInfo { seed, file_idx: 0, marks: HashMap::new() },
                        )
                    });
                    match r {
                        None => break 'outer,
                        Some(Err(e)) => {
                            obs.fail("spelling_corruption/err", format!("text={text:?} seed={seed}: {e}"));
                            break 'outer;
                        }
                        Some(Ok((item, _))) => outs.push(
                            if pc.target_part { item.verif_target() } else { item.verif_input() }
                                .to_string(),
                        ),
                    }
                }
                let out = &outs[0];
                if !out.is_empty() && out.split(' ').any(|w| w.is_empty()) {
                    obs.fail(
                        "spelling_corruption/empty-word-in-output",
                        format!("text={text:?} seed={seed} -> {out:?}"),
                    );
                }
                if outs[1] != *out {
                    obs.fail(
                        "spelling_corruption/two-builds-differ",
                        format!(
                            "text={text:?} seed={seed}: first build -> {out:?}, second build -> {:?}",
                            outs[1]
                        ),
                    );
                }
                if outs[2] != *out {
                    obs.fail(
                        "spelling_corruption/same-function-same-seed-differs",
                        format!("text={text:?} seed={seed}: {out:?} vs {:?}", outs[2]),
                    );
                }
                if out != text {
                    changed += 1;
                }
                obs.tag_if(
                    out.split(' ').filter(|w| !w.is_empty()).count() < text.split(' ').filter(|w| !w.is_empty()).count(),
                    "pipeline:word-fully-deleted",
                );
                if sample.len() < 2 {
                    sample.push(json!({"text": text, "seed": seed, "out": out}));
                }
            }
        }
    }
    let _ = std::fs::remove_dir_all(&dir);
    obs.nontrivial_if(changed >= 1 && pc.texts.iter().any(|t| t.split(' ').count() >= 2));
    obs.add("pipeline-calls", calls);
    obs.add("pipeline-outputs-changed", changed);
    obs.note(json!({"changed_outputs": changed, "samples": sample}));
}

impl Prop for C15 {
    type Case = Case;
    const ID: &'static str = "C15";

    fn lanes(tier: Tier) -> Vec<Lane> {
        vec![
            Lane::new("main", tier.pick(150_000, 2_000_000))
                .cap(tier.pick(150, 1200))
                .floor(tier.pick(5_000, 50_000)),
            Lane::new("pipeline", tier.pick(2_500, 25_000))
                .cap(tier.pick(150, 1200))
                .floor(tier.pick(300, 3_000)),
            // the pipeline generator with texts of up to 300 words and words of up to 70 symbols
            Lane::new("large", tier.pick(600, 10_000))
                .cap(tier.pick(150, 1200))
                .floor(tier.pick(40, 800)),
        ]
    }

    fn rule() -> &'static str {
        "main: a word of 0-8 characters over a 2-4 symbol alphabet (code point mode: single code \
         points incl. combining marks / ZWJ / regional indicators / jamo; grapheme mode: clusters \
         that never merge, 12%: a robustness alphabet whose pieces merge), real InsertEdits / \
         ReplaceEdits built from generated context tables over the alphabet plus <bow>/<eow> \
         (density 0.15-1.0, multi-character insertions, empty and 2-character replacement strings, \
         weight ties and zero weights, rows whose context matches nowhere), DeleteEdits \
         (full_delete on/off, 4 predicates), SwapEdits (4 predicates), random exclusion subset (or \
         None), a chain of 1-6 edit_word calls (one ChaCha8 stream seeded from the case) each with a \
         subset of {insert, delete, replace, swap} (70%: the same subset for the whole chain, 35% of \
         those all four) feeding the returned set back. Every call is judged against the enumerated \
         set of allowed outcomes (unchanged, or one legal edit of an enabled kind with the \
         prescribed exclusion set); the protection clause (indices inside the new word, excluded \
         characters byte-identical at their re-indexed positions) is asserted on the re-segmented \
         result. InsertEdits::get_edits / ReplaceEdits::get_edits are called directly for every \
         index 0..=len+2 of every word of the chain and compared with a lookup in the case's table. \
         non-trivial = the chain made >= 2 actual edits of >= 2 different kinds and the initial \
         exclusion set was not empty. pipeline: the real SpellingCorruption preprocessing \
         (artificial / realistic / mixed) built twice from generated characters and misspellings \
         files with frequency ties, run on 1-3 clean texts x 1-3 seeds: no panic, no empty word in \
         the output, same output from both builds and from a repeated call; non-trivial = some \
         output differs from its input and a text has >= 2 words."
    }

    fn assumptions() -> Vec<&'static str> {
        vec![
            "characters (code points / extended grapheme clusters) are taken from unicode-segmentation in the oracle as in the repo; the oracle's independence is in the splice-of-character-vectors enumeration and the set arithmetic",
            "an edit whose result re-segments in grapheme mode (pieces merge into one cluster) is a robustness class: word membership and no-panic are judged, the index clauses are not (positions have no stable meaning there)",
            "insertion next to an excluded position is taken as legal (the statement only forbids altering or using excluded characters); the implementation's stricter choice is inside the allowed set",
            "DeleteEdits::full_delete = false forbids deleting the only character; zero-weight table entries are allowed outcomes (the statement is silent about weights)",
            "get_edits for indices beyond the word is judged for panics only",
            "exclusion sets passed in lie inside the word; tables have a positive total weight per row and misspelling lists are non-empty (malformed tables are outside the quantifier)",
        ]
    }

    fn generate(rng: &mut Rng, _tier: Tier, lane: &str) -> Case {
        if lane == "pipeline" || lane == "large" {
            Case { lane: lane.to_string(), edit: None, pipe: Some(gen_pipe_case(rng)) }
        } else {
            Case { lane: lane.to_string(), edit: Some(gen_edit_case(rng)), pipe: None }
        }
    }

    fn check(c: &Case, obs: &mut Obs) {
        if let Some(ec) = &c.edit {
            check_edit(ec, obs);
        }
        if let Some(pc) = &c.pipe {
            check_pipe(pc, obs);
        }
    }
}
