//! C17 — token groups partition the id sequence; sparse matrix, padding mask and tensorize()
//! are faithful.
//!
//! `Spec`, `gen_spec`, `gen_text`, `occurrences`, `overlapping`, `ref_split` are the same helpers
//! as in c01.rs (they would fit into gen.rs, kept here on purpose).
use crate::core::*;
use crate::gen::{self, chars_of};
use rand::seq::{IndexedRandom, SliceRandom};
use rand::Rng as _;
use serde::{Deserialize, Serialize};
use serde_json::json;
use std::collections::HashSet;
use std::fmt::Debug;
use text_utils::data::loading::Tensorize;
use text_utils::data::{TensorizedTrainTaskInput, TrainData, TrainItem, TrainTaskInput};
use text_utils::tokenization::{
    padding_mask, token_groups_to_sparse_coo_matrix, tokenizer, ByteGroups,
    ByteTokenizer, ByteTokenizerConfig, GroupAggregation, Grouping, SpecialConfig, TokenGroup,
    TokenizationInfo, TokenizeConfig, Tokenizer, TokenizerConfig,
};

pub struct C17;

/// serde mirror of the repo's SpecialConfig
#[derive(Serialize, Deserialize, Clone, Debug)]
pub struct Spec {
    pub pad: String,
    pub tokens: Vec<String>,
    pub prefix: Vec<String>,
    pub suffix: Vec<String>,
}

impl Spec {
    pub fn to_repo(&self) -> SpecialConfig {
        SpecialConfig {
            pad: self.pad.clone(),
            tokens: self.tokens.clone(),
            prefix: self.prefix.clone(),
            suffix: self.suffix.clone(),
        }
    }
    /// distinct spellings in order of first occurrence
    pub fn distinct(&self) -> Vec<String> {
        let mut seen = HashSet::new();
        self.tokens
            .iter()
            .filter(|t| seen.insert(t.as_str()))
            .cloned()
            .collect()
    }
}

#[derive(Serialize, Deserialize, Clone, Debug)]
pub struct Item {
    pub ids: Vec<u32>,
    pub labels: Vec<i32>,
    pub target_ids: Vec<u32>,
    pub label: i32,
}

#[derive(Serialize, Deserialize, Clone, Debug)]
pub struct Case {
    pub graphemes: bool,
    pub groups_cp: bool,
    pub agg_sum: bool,
    pub pad_to: Option<usize>,
    pub spec: Spec,
    pub factory: bool,
    /// the batch: 1-8 texts, tokenised by one byte tokenizer
    pub texts: Vec<String>,
    pub ignore_special: bool,
    /// "classification" | "sequence_classification" | "generation" | "conditional_generation"
    pub task: String,
    pub items: Vec<Item>,
    pub pad_id: u32,
    pub target_pad_id: u32,
}

const DEFAULT_SPECIALS: &[&str] = &["<unk>", "<bos>", "<eos>", "<pad>"];
const EXTRA_POOL: &[&str] = &[
    "<mask>", "<sep>", "<cls>", "[SEP]", "[MASK]", "</s>", "<s>", "||", "<lang:de>", "<ä>", "▁▁",
    "<extra_token_0>", "<extra_token_1>", "(x)", "a+b", ".*", "\\n", "<|endoftext|>", "$$", "^^",
    "<語>", "😀😀", "<PAD>",
];
const AMBIG_POOL: &[&str] = &[
    "<pad", "<pad>>", "<<pad>>", "<pad><eos>", "aa", "ab", "<p", ">x<", "pad", "<unk", "os><",
    "><", "aba",
];

pub fn gen_spec(rng: &mut Rng, ambiguous: bool) -> Spec {
    let mut tokens: Vec<String> = if rng.random_bool(0.75) {
        DEFAULT_SPECIALS.iter().map(|s| s.to_string()).collect()
    } else {
        let n = rng.random_range(1..=4);
        (0..n)
            .map(|_| {
                if rng.random_bool(0.5) {
                    DEFAULT_SPECIALS.choose(rng).unwrap().to_string()
                } else {
                    EXTRA_POOL.choose(rng).unwrap().to_string()
                }
            })
            .collect()
    };
    let n_extra = *[0usize, 0, 0, 1, 2, 3, 4].choose(rng).unwrap();
    for _ in 0..n_extra {
        tokens.push(EXTRA_POOL.choose(rng).unwrap().to_string());
    }
    if ambiguous {
        for _ in 0..rng.random_range(1..=3) {
            tokens.push(AMBIG_POOL.choose(rng).unwrap().to_string());
        }
    }
    if rng.random_bool(0.3) {
        let d = tokens.choose(rng).unwrap().clone();
        let i = rng.random_range(0..=tokens.len());
        tokens.insert(i, d);
    }
    if rng.random_bool(0.3) {
        tokens.shuffle(rng);
    }
    let pad = if tokens.iter().any(|t| t == "<pad>") && rng.random_bool(0.7) {
        "<pad>".to_string()
    } else {
        tokens.choose(rng).unwrap().clone()
    };
    let list = |rng: &mut Rng| -> Vec<String> {
        let n = *[0usize, 0, 1, 1, 2, 3].choose(rng).unwrap();
        (0..n).map(|_| tokens.choose(rng).unwrap().clone()).collect()
    };
    let prefix = list(rng);
    let suffix = list(rng);
    Spec {
        pad,
        tokens,
        prefix,
        suffix,
    }
}

/// a text with special spellings and near-misses injected next to multi-byte material
pub fn gen_text(rng: &mut Rng, specials: &[String], mean_len: f64) -> String {
    let flavor = gen::flavor(rng);
    let base = if mean_len > 0.0 {
        let mut s = String::new();
        for _ in 0..gen::len_geo(rng, mean_len, 60) {
            s.push_str(gen::any_char(rng, true, true));
        }
        s
    } else {
        gen::ustring(rng, flavor, 40)
    };
    let mut cs: Vec<String> = chars_of(&base, false).iter().map(|s| s.to_string()).collect();
    let k = *[0usize, 0, 1, 1, 2, 3].choose(rng).unwrap();
    for _ in 0..k {
        let sp: String = if rng.random_bool(0.8) && !specials.is_empty() {
            specials.choose(rng).unwrap().clone()
        } else {
            gen::SPECIAL_LIKE.choose(rng).unwrap().to_string()
        };
        let chars: Vec<char> = sp.chars().collect();
        let piece: String = match rng.random_range(0..10) {
            0..=6 => sp.clone(),
            7 => chars[..chars.len().saturating_sub(1)].iter().collect(),
            8 => chars[1.min(chars.len())..].iter().collect(),
            _ => format!("{sp}{sp}"),
        };
        let i = rng.random_range(0..=cs.len());
        cs.insert(i, piece);
        let pool: &[&str] = match rng.random_range(0..3) {
            0 => gen::MULTIBYTE,
            1 => gen::CLUSTERS,
            _ => gen::COMBINING,
        };
        if rng.random_bool(0.35) {
            cs.insert(i + 1, pool.choose(rng).unwrap().to_string());
        }
        if rng.random_bool(0.35) {
            cs.insert(i, pool.choose(rng).unwrap().to_string());
        }
    }
    cs.concat()
}

/// every occurrence (byte range) of every spelling, by brute force, sorted
pub fn occurrences(text: &str, specials: &[String]) -> Vec<(usize, usize)> {
    let mut occ = vec![];
    for (i, _) in text.char_indices() {
        for sp in specials {
            if !sp.is_empty() && text[i..].starts_with(sp.as_str()) {
                occ.push((i, i + sp.len()));
            }
        }
    }
    occ.sort();
    occ.dedup();
    occ
}

/// true if two occurrences share a byte (then the statement does not prescribe the segmentation)
pub fn overlapping(occ: &[(usize, usize)]) -> bool {
    let mut max_end = 0;
    for &(s, e) in occ {
        if s < max_end {
            return true;
        }
        max_end = max_end.max(e);
    }
    false
}

/// expected groups: total byte length and, for a character of the text, its code point lengths
#[derive(Debug, Clone, PartialEq)]
struct Unit {
    len: usize,
    code_points: Option<Vec<usize>>,
}

/// reference: one unit per prefix token, per character between non-overlapping special
/// occurrences, per special occurrence, per suffix token
fn ref_units(text: &str, occ: &[(usize, usize)], graphemes: bool, np: usize, ns: usize) -> Vec<Unit> {
    let single = Unit {
        len: 1,
        code_points: None,
    };
    let mut out = vec![single.clone(); np];
    let regular = |piece: &str, out: &mut Vec<Unit>| {
        for ch in chars_of(piece, graphemes) {
            out.push(Unit {
                len: ch.len(),
                code_points: Some(ch.chars().map(char::len_utf8).collect()),
            });
        }
    };
    let mut pos = 0;
    for &(s, e) in occ {
        if s > pos {
            regular(&text[pos..s], &mut out);
        }
        out.push(single.clone());
        pos = e;
    }
    if pos < text.len() {
        regular(&text[pos..], &mut out);
    }
    out.extend(vec![single; ns]);
    out
}

fn build(c: &Case) -> anyhow::Result<Tokenizer> {
    let cfg = ByteTokenizerConfig {
        use_graphemes: c.graphemes,
        pad_to_multiple_of: c.pad_to,
        groups: if c.groups_cp {
            ByteGroups::CodePoints
        } else {
            ByteGroups::Bytes
        },
        aggregation: if c.agg_sum {
            GroupAggregation::Sum
        } else {
            GroupAggregation::Mean
        },
    };
    Ok(if c.factory {
        tokenizer(TokenizerConfig {
            tokenize: TokenizeConfig::Byte(cfg),
            special: c.spec.to_repo(),
        })?
    } else {
        Box::new(ByteTokenizer::new(cfg, c.spec.to_repo())?)
    })
}

/// padded matrix: row i == rows[i] followed only by `pad`
fn check_rows<T: PartialEq + Copy + Debug>(
    obs: &mut Obs,
    what: &str,
    shape: &[usize],
    at: impl Fn(usize, usize) -> T,
    rows: &[&[T]],
    pad: T,
) {
    let max = rows.iter().map(|r| r.len()).max().unwrap_or(0);
    if shape.len() != 2 || shape[0] != rows.len() || shape[1] < max {
        obs.fail(
            format!("tensorize/{what}/shape"),
            format!("shape {shape:?} for {} rows with maximal length {max}", rows.len()),
        );
        return;
    }
    for (i, row) in rows.iter().enumerate() {
        let got: Vec<T> = (0..shape[1]).map(|j| at(i, j)).collect();
        if &got[..row.len()] != *row {
            obs.fail(
                format!("tensorize/{what}/values"),
                format!("row {i} is {got:?}, item has {row:?}"),
            );
        } else if got[row.len()..].iter().any(|v| *v != pad) {
            obs.fail(
                format!("tensorize/{what}/padding"),
                format!("row {i} is {got:?}, item has {row:?}, padding value is {pad:?}"),
            );
        }
    }
}

fn check_lengths(obs: &mut Obs, what: &str, got: Vec<usize>, rows: &[&[u32]]) {
    let want: Vec<usize> = rows.iter().map(|r| r.len()).collect();
    obs.check(got == want, &format!("tensorize/{what}"), || {
        format!("{what} {got:?}, true lengths {want:?}")
    });
}

/// mask[i][j] must tell j < lengths[i] from j >= lengths[i] (same polarity in the whole matrix)
fn check_mask(obs: &mut Obs, lengths: &[usize]) {
    let Some(mask) = guarded(obs, "padding_mask", || padding_mask(lengths)) else {
        return;
    };
    let max = lengths.iter().max().copied().unwrap_or(0);
    let shape = mask.shape().to_vec();
    if shape.len() != 2 || shape[0] != lengths.len() || shape[1] < max {
        obs.fail(
            "padding_mask/shape",
            format!("shape {shape:?} for lengths {lengths:?}"),
        );
        return;
    }
    let mut inside: Option<bool> = None;
    let mut outside: Option<bool> = None;
    let mut ok = true;
    for (i, &len) in lengths.iter().enumerate() {
        for j in 0..shape[1] {
            let v = mask[[i, j]];
            let slot = if j < len { &mut inside } else { &mut outside };
            match slot {
                None => *slot = Some(v),
                Some(w) => ok &= *w == v,
            }
        }
    }
    if let (Some(a), Some(b)) = (inside, outside) {
        ok &= a != b;
    }
    obs.check(ok, "padding_mask/values", || {
        let rows: Vec<Vec<bool>> = (0..shape[0])
            .map(|i| (0..shape[1]).map(|j| mask[[i, j]]).collect())
            .collect();
        format!("lengths {lengths:?} mask {rows:?}")
    });
}

fn gen_lengths(rng: &mut Rng, n: usize) -> Vec<usize> {
    match rng.random_range(0..6) {
        0 => vec![rng.random_range(0..gen::sc(12)); n],
        1 => {
            // one long among short
            let mut v: Vec<usize> = (0..n).map(|_| rng.random_range(0..4)).collect();
            let i = rng.random_range(0..n);
            v[i] = rng.random_range(gen::sc(20)..gen::sc(40));
            v
        }
        2 => (0..n).map(|_| if rng.random_bool(0.5) { 0 } else { rng.random_range(1..gen::sc(6)) }).collect(),
        _ => (0..n).map(|_| rng.random_range(0..gen::sc(16))).collect(),
    }
}

impl Prop for C17 {
    type Case = Case;
    const ID: &'static str = "C17";

    fn lanes(tier: Tier) -> Vec<Lane> {
        vec![
            Lane::new("main", tier.pick(300_000, 6_000_000))
            .cap(tier.pick(150, 900))
            .floor(tier.pick(20_000, 300_000)),
            // every length 10 / 50 / 250 times bigger
            Lane::new("large", tier.pick(16_000, 300_000))
                .cap(tier.pick(150, 1200))
                .floor(tier.pick(1_000, 20_000)),
        ]
    }

    fn rule() -> &'static str {
        "per case one byte tokenizer (graphemes on/off, byte / code-point groups, mean / sum, \
         pad_to_multiple_of, special lists with extras, duplicates and 10% overlapping spellings, \
         prefix/suffix lists of 0-3 specials) and a batch of 1-8 texts (random composition: independent \
         texts, all empty, all equal, one long among short, with empty strings mixed in; special \
         spellings and near-misses injected next to multi-byte letters, clusters, combining marks), \
         tokenised with ignore_special_tokens on or off; the groupings of the batch go through \
         token_groups_to_sparse_coo_matrix (fields read via SparseCoo::verif_parts) and padding_mask. \
         Independently a batch of 1-8 TrainItems of one task kind (all four kinds; lengths: random, all \
         equal, one long among short, many empty; labels of the same or of an independent length, label \
         values include -1, ids include the pad id) goes through Batch<TrainItem>::tensorize(). \
         Texts in which occurrences of special spellings overlap are judged for the partition sum and the \
         matrix only (segmentation not prescribed). distinct = hash of the case; non-trivial = the batch \
         has a group of >= 2 tokens and two sequences of different length (so that grouping and padding \
         both matter)."
    }

    fn assumptions() -> Vec<&'static str> {
        vec![
            "extended grapheme clusters are taken from unicode-segmentation in the oracle as in the repo",
            "the automatic <extra_token_i> specials of the byte tokenizer are read from get_vocab (ids >= 256)",
            "the polarity of padding_mask is not prescribed: it must separate the first lengths[i] cells of row i from the rest, with one polarity for the whole matrix",
            "the matrices may be wider than the longest row (only: at least as wide); the declared size of the sparse matrix only has to contain all indices",
            "an entry of the sparse matrix belongs to the group (row index) that covers its token position in the grouping that was passed in",
        ]
    }

    fn generate(rng: &mut Rng, _tier: Tier, _lane: &str) -> Case {
        // `large` lane: the multiplier of the case goes to the batch size (up to 400 rows) or to
        // the lengths of the rows, not both
        let k = gen::scale();
        let bscale = if k > 1 && rng.random_bool(0.5) { k.min(50) } else { 1 };
        if bscale > 1 {
            gen::set_scale(1);
        }
        let ambiguous = rng.random_bool(0.1);
        let spec = gen_spec(rng, ambiguous);
        let specials = spec.distinct();
        let b = rng.random_range(1..=8 * bscale);
        let texts: Vec<String> = match rng.random_range(0..10) {
            0 => vec![String::new(); b],
            1 => {
                let t = gen_text(rng, &specials, 0.0);
                vec![t; b]
            }
            2 => {
                // one long among short
                let mut v: Vec<String> = (0..b).map(|_| gen_text(rng, &specials, 2.0)).collect();
                let i = rng.random_range(0..b);
                v[i] = gen_text(rng, &specials, 40.0);
                v
            }
            _ => (0..b)
                .map(|_| {
                    if rng.random_bool(0.1) {
                        String::new()
                    } else {
                        gen_text(rng, &specials, 0.0)
                    }
                })
                .collect(),
        };
        let task = *["classification", "sequence_classification", "generation", "conditional_generation"]
            .choose(rng)
            .unwrap();
        let n = rng.random_range(1..=8 * bscale);
        let pad_id = *[0u32, 1, 259, 300].choose(rng).unwrap();
        let target_pad_id = *[0u32, 2, 259, 7].choose(rng).unwrap();
        let lens = gen_lengths(rng, n);
        let tlens = gen_lengths(rng, n);
        let same_len_labels = rng.random_bool(0.7);
        let llens = gen_lengths(rng, n);
        let items = (0..n)
            .map(|i| {
                let ids = |rng: &mut Rng, len: usize, pad: u32| -> Vec<u32> {
                    (0..len)
                        .map(|_| if rng.random_bool(0.1) { pad } else { rng.random_range(0..300) })
                        .collect()
                };
                let token_ids = ids(rng, lens[i], pad_id);
                let target_ids = ids(rng, tlens[i], target_pad_id);
                let ll = if task == "conditional_generation" {
                    if same_len_labels { tlens[i] } else { llens[i] }
                } else if same_len_labels {
                    lens[i]
                } else {
                    llens[i]
                };
                Item {
                    ids: token_ids,
                    labels: (0..ll).map(|_| rng.random_range(-1..6)).collect(),
                    target_ids,
                    label: rng.random_range(-1..6),
                }
            })
            .collect();
        Case {
            graphemes: rng.random_bool(0.5),
            groups_cp: rng.random_bool(0.5),
            agg_sum: rng.random_bool(0.4),
            pad_to: *[None, None, None, Some(1), Some(2), Some(64), Some(128), Some(512)]
                .choose(rng)
                .unwrap(),
            spec,
            factory: rng.random_bool(0.2),
            texts,
            ignore_special: rng.random_bool(0.3),
            task: task.to_string(),
            items,
            pad_id,
            target_pad_id,
        }
    }

    fn check(c: &Case, obs: &mut Obs) {
        // history round (core::history_round): the same inputs with `graphemes` flipped in between
        if history_round(
            c,
            obs,
            |c| {
                let mut v = c.clone();
                v.graphemes = !v.graphemes;
                v
            },
            Self::check,
        ) {
            return;
        }
        check_groups_and_matrix(c, obs);
        check_tensorize(c, obs);
    }
}

fn check_groups_and_matrix(c: &Case, obs: &mut Obs) {
    let tok = match guarded(obs, "new", || build(c)) {
        Some(Ok(t)) => t,
        Some(Err(e)) => {
            obs.fail("new/err-on-valid-config", format!("{e}"));
            return;
        }
        None => return,
    };
    let vocab = match guarded(obs, "get_vocab", || tok.get_vocab()) {
        Some(Ok(v)) => v,
        Some(Err(e)) => {
            obs.fail("get_vocab/err", format!("{e}"));
            return;
        }
        None => return,
    };
    let mut specials = c.spec.distinct();
    for e in vocab.iter().skip(256) {
        if let Ok(s) = std::str::from_utf8(e) {
            if !specials.iter().any(|t| t == s) {
                specials.push(s.to_string());
            }
        }
    }
    let (np, ns) = (c.spec.prefix.len(), c.spec.suffix.len());
    obs.check(
        tok.num_prefix_tokens() == np && tok.num_suffix_tokens() == ns,
        "num-prefix-suffix-tokens",
        || format!("{} / {} for lists of {np} / {ns}", tok.num_prefix_tokens(), tok.num_suffix_tokens()),
    );
    let want_agg = if c.agg_sum {
        GroupAggregation::Sum
    } else {
        GroupAggregation::Mean
    };
    obs.tag(if c.groups_cp { "code-point-groups" } else { "byte-groups" });
    obs.tag(if c.agg_sum { "sum" } else { "mean" });
    obs.tag_if(c.graphemes, "graphemes");
    obs.tag_if(np > 0, "prefix");
    obs.tag_if(ns > 0, "suffix");
    obs.tag_if(c.ignore_special, "ignore-specials");

    let mut groupings: Vec<Grouping> = vec![];
    let mut lengths: Vec<usize> = vec![];
    let mut any_multi = false;
    let mut any_nested_multi = false;
    let mut n_groups = 0u64;
    for text in &c.texts {
        // history on the same tokenizer object: every second text is first tokenised with the
        // other flag value (result ignored), so that anything remembered per text shows
        if hash64(text) % 2 == 0 {
            let _ = catch(|| tok.tokenize(text, !c.ignore_special));
            obs.tag("history/same-text-other-flag-first");
        }
        let t = match guarded(obs, "tokenize", || tok.tokenize(text, c.ignore_special)) {
            Some(Ok(t)) => t,
            Some(Err(e)) => {
                obs.fail("tokenize-err", format!("text {text:?}: {e}"));
                return;
            }
            None => return,
        };
        let TokenizationInfo::TokenGroups(map) = &t.info else {
            obs.fail("groups/missing", format!("text {text:?}: info is {:?}", t.info));
            return;
        };
        if map.len() != 1 {
            obs.fail("groups/not-one-grouping", format!("text {text:?}: info is {:?}", t.info));
            return;
        }
        let (groups, agg) = map.values().next().expect("one entry");
        obs.check(*agg == want_agg, "groups/aggregation-not-as-configured", || {
            format!("grouping carries {agg:?}, config says {want_agg:?}")
        });
        // partition
        let total: usize = groups.iter().map(|g| g.len()).sum();
        obs.check(total == t.token_ids.len(), "groups/sum-of-lengths", || {
            format!(
                "text {text:?}: group lengths sum to {total}, {} token ids; groups {groups:?}",
                t.token_ids.len()
            )
        });
        let occ = if c.ignore_special {
            vec![]
        } else {
            occurrences(text, &specials)
        };
        let ambiguous = overlapping(&occ);
        obs.tag_if(ambiguous, "overlapping-specials-sum-only");
        obs.tag_if(!occ.is_empty() && !ambiguous, "special-parsed");
        obs.tag_if(text.is_empty(), "empty-text");
        if !ambiguous {
            let units = ref_units(text, &occ, c.graphemes, np, ns);
            if groups.len() != units.len() {
                obs.fail(
                    "groups/count",
                    format!(
                        "text {text:?}: {} groups, expected {} (prefix {np}, suffix {ns}, parsed specials {}); groups {groups:?}",
                        groups.len(),
                        units.len(),
                        occ.len()
                    ),
                );
            } else {
                for (k, (g, u)) in groups.iter().zip(&units).enumerate() {
                    if g.len() != u.len {
                        obs.fail(
                            "groups/length",
                            format!("text {text:?}: group {k} is {g:?}, expected {u:?}"),
                        );
                        break;
                    }
                    if let (true, Some(cps)) = (c.groups_cp, &u.code_points) {
                        let sub: Option<Vec<usize>> = match g {
                            TokenGroup::Nested(v) => Some(v.iter().map(|x| x.len()).collect()),
                            _ => None,
                        };
                        if sub.as_ref() != Some(cps) {
                            obs.fail(
                                "groups/code-point-sub-groups",
                                format!("text {text:?}: group {k} is {g:?}, code point lengths {cps:?}"),
                            );
                            break;
                        }
                    }
                }
            }
        }
        any_multi |= groups.iter().any(|g| g.len() >= 2);
        any_nested_multi |= groups
            .iter()
            .any(|g| matches!(g, TokenGroup::Nested(v) if v.len() >= 2));
        n_groups += groups.len() as u64;
        lengths.push(t.token_ids.len());
        groupings.push((groups.clone(), *agg));
    }
    obs.tag_if(any_nested_multi, "nested-group-with-several-code-points");

    // --- sparse matrix of the batch
    let refs: Vec<&Grouping> = groupings.iter().collect();
    let consistent = groupings
        .iter()
        .zip(&lengths)
        .all(|((g, _), l)| g.iter().map(|x| x.len()).sum::<usize>() == *l);
    if !consistent {
        // already reported as groups/sum-of-lengths; the matrix function asserts this precondition
        return;
    }
    let sp = match guarded(obs, "sparse", || token_groups_to_sparse_coo_matrix(&refs, &lengths)) {
        Some(Ok(m)) => m,
        Some(Err(e)) => {
            obs.fail("sparse/err", format!("{e}"));
            return;
        }
        None => return,
    };
    let (idx, vals, size, group_lengths) = sp.verif_parts();
    let stride: usize = lengths.iter().sum();
    let b = lengths.len();
    let ctx = || format!("lengths {lengths:?} groupings {groupings:?}");
    if vals.len() != stride || idx.len() != 3 * stride {
        obs.fail(
            "sparse/entry-count",
            format!("{} values, {} index cells, expected {stride} entries; {}", vals.len(), idx.len(), ctx()),
        );
        return;
    }
    obs.check(size.len() == 3, "sparse/size-rank", || format!("size {size:?}"));
    let want_gl: Vec<usize> = groupings.iter().map(|(g, _)| g.len()).collect();
    obs.check(group_lengths == want_gl, "sparse/group_lengths", || {
        format!("group_lengths {group_lengths:?}, expected {want_gl:?}")
    });
    // expected group of every token position
    let group_of: Vec<Vec<usize>> = groupings
        .iter()
        .map(|(g, _)| {
            g.iter()
                .enumerate()
                .flat_map(|(gi, x)| std::iter::repeat(gi).take(x.len()))
                .collect()
        })
        .collect();
    let mut seen: Vec<Vec<bool>> = lengths.iter().map(|l| vec![false; *l]).collect();
    let mut sums: Vec<Vec<f64>> = want_gl.iter().map(|n| vec![0.0; *n]).collect();
    let mut bad = false;
    for e in 0..stride {
        let (bi, gi, ki) = (idx[e], idx[stride + e], idx[2 * stride + e]);
        let v = vals[e];
        let inside = size.len() == 3
            && bi >= 0
            && gi >= 0
            && ki >= 0
            && (bi as usize) < size[0]
            && (gi as usize) < size[1]
            && (ki as usize) < size[2];
        if !inside {
            obs.fail(
                "sparse/index-outside-size",
                format!("entry {e}: ({bi}, {gi}, {ki}) size {size:?}; {}", ctx()),
            );
            bad = true;
            break;
        }
        let (bi, gi, ki) = (bi as usize, gi as usize, ki as usize);
        if bi >= b || ki >= lengths[bi] {
            obs.fail(
                "sparse/entry-for-no-token",
                format!("entry {e}: ({bi}, {gi}, {ki}); {}", ctx()),
            );
            bad = true;
            break;
        }
        if seen[bi][ki] {
            obs.fail(
                "sparse/token-twice",
                format!("entry {e}: token {ki} of sequence {bi} appears again; {}", ctx()),
            );
            bad = true;
            break;
        }
        seen[bi][ki] = true;
        if group_of[bi][ki] != gi {
            obs.fail(
                "sparse/entry-in-wrong-group",
                format!(
                    "entry {e}: token {ki} of sequence {bi} is in group {gi}, the grouping puts it in group {}; {}",
                    group_of[bi][ki],
                    ctx()
                ),
            );
            bad = true;
            break;
        }
        if c.agg_sum && v != 1.0 {
            obs.fail(
                "sparse/sum-weight-not-one",
                format!("entry {e}: ({bi}, {gi}, {ki}) has value {v}; {}", ctx()),
            );
            bad = true;
            break;
        }
        sums[bi][gi] += v as f64;
    }
    if !bad {
        // stride entries, no token twice, every entry a token => every token exactly once
        if !c.agg_sum {
            'outer: for (bi, row) in sums.iter().enumerate() {
                for (gi, s) in row.iter().enumerate() {
                    if !s.is_finite() || (s - 1.0).abs() > 1e-5 {
                        obs.fail(
                            "sparse/mean-weights-do-not-sum-to-one",
                            format!("group {gi} of sequence {bi}: weights sum to {s}; values {vals:?}; {}", ctx()),
                        );
                        break 'outer;
                    }
                }
            }
        }
    }
    check_mask(obs, &group_lengths);
    check_mask(obs, &lengths);

    let unequal = lengths.iter().any(|l| *l != lengths[0]);
    obs.tag_if(b >= 2, "batch-of-several");
    obs.tag_if(b >= 2 && !unequal, "batch-equal-lengths");
    obs.tag_if(stride == 0, "batch-all-empty");
    obs.nontrivial_if(any_multi && unequal);
    obs.add("groups", n_groups);
    obs.add("matrix-entries", stride as u64);
    obs.max("batch-size", b as u64);
    obs.note(json!({
        "batch": b,
        "token_lengths": lengths,
        "group_lengths": group_lengths,
        "matrix_entries": stride,
        "size": size,
        "task": c.task,
    }));
}

fn check_tensorize(c: &Case, obs: &mut Obs) {
    let batch: Vec<TrainItem> = c
        .items
        .iter()
        .map(|it| {
            let input = match c.task.as_str() {
                "classification" => TrainTaskInput::Classification {
                    token_ids: it.ids.clone(),
                    pad_token_id: c.pad_id,
                    label: it.label,
                },
                "sequence_classification" => TrainTaskInput::SequenceClassification {
                    token_ids: it.ids.clone(),
                    pad_token_id: c.pad_id,
                    labels: it.labels.clone(),
                },
                "generation" => TrainTaskInput::Generation {
                    token_ids: it.ids.clone(),
                    pad_token_id: c.pad_id,
                    labels: it.labels.clone(),
                },
                _ => TrainTaskInput::ConditionalGeneration {
                    token_ids: it.ids.clone(),
                    pad_token_id: c.pad_id,
                    target_token_ids: it.target_ids.clone(),
                    target_pad_token_id: c.target_pad_id,
                    labels: it.labels.clone(),
                },
            };
            TrainItem::new(TrainData::new("x".to_string(), None), input)
        })
        .collect();
    if batch.is_empty() {
        return;
    }
    let Some(t) = guarded(obs, "tensorize", || batch.tensorize()) else {
        return;
    };
    let ids: Vec<&[u32]> = c.items.iter().map(|i| i.ids.as_slice()).collect();
    let tgt: Vec<&[u32]> = c.items.iter().map(|i| i.target_ids.as_slice()).collect();
    let labels: Vec<&[i32]> = c.items.iter().map(|i| i.labels.as_slice()).collect();
    let padded = ids.iter().any(|r| r.len() != ids[0].len());
    obs.tag_if(padded, "tensorize-with-padding");
    match (&t, c.task.as_str()) {
        (TensorizedTrainTaskInput::Classification(a, l, lab), "classification") => {
            obs.tag("tensorize-classification");
            check_rows(obs, "token_ids", a.shape(), |i, j| a[[i, j]], &ids, c.pad_id);
            check_lengths(obs, "lengths", l.iter().copied().collect(), &ids);
            let got: Vec<i32> = lab.iter().copied().collect();
            let want: Vec<i32> = c.items.iter().map(|i| i.label).collect();
            obs.check(got == want, "tensorize/labels/values", || {
                format!("labels {got:?}, items have {want:?}")
            });
        }
        (TensorizedTrainTaskInput::SequenceClassification(a, l, lab), "sequence_classification")
        | (TensorizedTrainTaskInput::Generation(a, l, lab), "generation") => {
            obs.tag(if c.task == "generation" {
                "tensorize-generation"
            } else {
                "tensorize-sequence-classification"
            });
            check_rows(obs, "token_ids", a.shape(), |i, j| a[[i, j]], &ids, c.pad_id);
            check_lengths(obs, "lengths", l.iter().copied().collect(), &ids);
            check_rows(obs, "labels", lab.shape(), |i, j| lab[[i, j]], &labels, -1);
        }
        (TensorizedTrainTaskInput::ConditionalGeneration(a, l, ta, tl, lab), "conditional_generation") => {
            obs.tag("tensorize-conditional-generation");
            check_rows(obs, "token_ids", a.shape(), |i, j| a[[i, j]], &ids, c.pad_id);
            check_lengths(obs, "lengths", l.iter().copied().collect(), &ids);
            check_rows(obs, "target_token_ids", ta.shape(), |i, j| ta[[i, j]], &tgt, c.target_pad_id);
            check_lengths(obs, "target_lengths", tl.iter().copied().collect(), &tgt);
            check_rows(obs, "labels", lab.shape(), |i, j| lab[[i, j]], &labels, -1);
        }
        _ => obs.fail("tensorize/kind", format!("batch of {} came back as another kind", c.task)),
    }
}
