//! C10 — whitespace `operations` / `repair` are inverse on clean texts with equal non-whitespace
//! content; `repair` never touches anything but whitespace; all-Keep is the identity; a length
//! mismatch is an `Err`, not a panic.
use crate::core::*;
use crate::gen::{self, chars_of, has_mixed_cluster, Flavor};
use rand::seq::IndexedRandom;
use rand::Rng as _;
use serde::{Deserialize, Serialize};
use serde_json::json;
use text_utils::whitespace::{self, Operation};
use unicode_segmentation::UnicodeSegmentation;

pub struct C10;

#[derive(Serialize, Deserialize, Clone, Debug)]
pub struct Case {
    pub graphemes: bool,
    /// first sentence: two re-spacings of one character sequence
    pub from: String,
    pub to: String,
    /// second sentence: any string with an operation sequence of matching length
    /// (0 = Keep, 1 = Insert, 2 = Delete)
    pub s: String,
    pub ops: Vec<u8>,
    /// how the op sequence was drawn (evidence only)
    pub ops_mode: String,
    /// an operation sequence whose length differs from the number of characters of `s`
    pub bad_ops: Vec<u8>,
    /// number of candidate strings / spacings the generator had to repair because a grapheme
    /// cluster mixed whitespace and non-whitespace (grapheme mode only, evidence only)
    pub repaired: u32,
}

/// characters that make extended grapheme cluster segmentation context dependent and that are
/// not in the shared pools: Prepend, SpacingMark, lone regional indicators, conjoining jamo
const EXOTIC: &[&str] = &[
    "\u{600}", "\u{903}", "🇩", "🇪", "ᄀ", "\u{1161}", "\u{11a8}", "\u{200d}", "\u{301}",
];

fn strip_ws(s: &str) -> String {
    s.chars().filter(|c| !c.is_whitespace()).collect()
}

fn n_chars(s: &str, graphemes: bool) -> usize {
    if graphemes {
        s.graphemes(true).count()
    } else {
        s.chars().count()
    }
}

/// the non-whitespace characters of `s` (clusters without any whitespace code point)
fn nonws_chars(s: &str, graphemes: bool) -> Vec<&str> {
    chars_of(s, graphemes)
        .into_iter()
        .filter(|c| !c.chars().any(char::is_whitespace))
        .collect()
}

/// reference for "whitespace-clean": written on code points only
fn is_clean(s: &str) -> bool {
    let mut prev_ws = true; // a leading whitespace is "consecutive" with the start
    for c in s.chars() {
        if c.is_whitespace() {
            if prev_ws || c != ' ' {
                return false;
            }
            prev_ws = true;
        } else {
            prev_ws = false;
        }
    }
    s.is_empty() || !prev_ws
}

fn to_op(b: u8) -> Operation {
    match b {
        1 => Operation::Insert,
        2 => Operation::Delete,
        _ => Operation::Keep,
    }
}

fn splice_exotic(rng: &mut Rng, s: &str) -> String {
    let mut cs: Vec<String> = s.chars().map(|c| c.to_string()).collect();
    for _ in 0..rng.random_range(1..=3) {
        let i = rng.random_range(0..=cs.len());
        cs.insert(i, EXOTIC.choose(rng).unwrap().to_string());
    }
    cs.concat()
}

/// insert a letter between the whitespace and the non-whitespace code points of every mixed
/// cluster, so the whitespace structure of the string survives the repair
fn make_grapheme_safe(s: &str) -> String {
    let mut cur = s.to_string();
    for _ in 0..4 {
        if !has_mixed_cluster(&cur) {
            return cur;
        }
        let mut out = String::new();
        for g in cur.graphemes(true) {
            let mut prev: Option<bool> = None;
            for c in g.chars() {
                let w = c.is_whitespace();
                if prev.is_some_and(|p| p != w) {
                    out.push('x');
                }
                out.push(c);
                prev = Some(w);
            }
        }
        cur = out;
    }
    if has_mixed_cluster(&cur) {
        cur = cur
            .chars()
            .filter(|c| c.is_alphanumeric() || *c == ' ')
            .collect();
    }
    cur
}

/// a string without whitespace code points
fn solid(rng: &mut Rng) -> String {
    let raw = match rng.random_range(0..10) {
        0..=3 => gen::ustring(rng, Flavor::Wild, 30),
        4..=6 => gen::ustring(rng, Flavor::Texty, 30),
        _ => gen::ustring(rng, Flavor::Tiny, 20),
    };
    let raw = if rng.random_bool(0.25) {
        splice_exotic(rng, &raw)
    } else {
        raw
    };
    let mut out = strip_ws(&raw);
    if out.chars().count() < 3 && rng.random_bool(0.8) {
        let f = gen::flavor(rng);
        out.push_str(&strip_ws(&gen::ustring(rng, f, 30)));
    }
    out
}

fn respace(rng: &mut Rng, chars: &[&str], allowed: &[bool]) -> String {
    let p = *[0.0, 0.15, 0.3, 0.5, 0.8, 1.0].choose(rng).unwrap();
    let mut out = String::new();
    for (i, c) in chars.iter().enumerate() {
        if i > 0 && allowed[i - 1] && rng.random_bool(p) {
            out.push(' ');
        }
        out.push_str(c);
    }
    out
}

impl Prop for C10 {
    type Case = Case;
    const ID: &'static str = "C10";

    fn lanes(tier: Tier) -> Vec<Lane> {
        vec![
            Lane::new("main", tier.pick(1_000_000, 12_000_000))
                    .cap(tier.pick(120, 1200))
                    .floor(tier.pick(20_000, 200_000)),
            // every length 10 / 50 / 250 times bigger (strings of up to 10 000 symbols)
            Lane::new("large", tier.pick(20_000, 300_000))
                .cap(tier.pick(150, 1200))
                .floor(tier.pick(1_500, 20_000)),
        ]
    }

    fn rule() -> &'static str {
        "every case holds (i) a pair from/to = two independent random re-spacings (single U+0020 in a \
         gap with probability 0/.15/.3/.5/.8/1 per side) of one whitespace-free character sequence \
         drawn from the Unicode pools (letters, punctuation, zero-width non-spaces, multi-byte, \
         combining marks, ZWJ emoji, flags, jamo, plus Prepend / SpacingMark / lone regional \
         indicators / lone jamo), both directions are checked; (ii) an arbitrary string (all \
         White_Space code points, CRLF, ...) with an operation sequence of matching length drawn \
         uniform / all-Insert / all-Delete / all-Keep / adversarial (Insert on whitespace, Delete on \
         letters) / sensible (Insert on letters, Delete on whitespace), plus a sequence of wrong \
         length (+-1..3, or empty). x use_graphemes. In grapheme mode gaps that would create a \
         cluster mixing whitespace with non-whitespace get no space and strings with such clusters \
         are repaired by inserting a letter (counter `generator-repaired`), except for a 10% share \
         that is left as drawn (half of it also puts spaces between the code points of a cluster): whatever is measured to be outside the quantifier (mixed cluster, \
         or the two texts do not have one common cluster sequence) is only judged for no-panic and \
         tagged `robustness-*`. non-trivial = the pair is inside the quantifier, its operations \
         contain >= 1 Insert and >= 1 Delete, and the text has a multi-byte character."
    }

    fn assumptions() -> Vec<&'static str> {
        vec![
            "code point / extended grapheme cluster segmentation is taken from std / unicode-segmentation in the oracle as in the repo (same crate version through the shared lock file)",
            "whitespace = char::is_whitespace (Unicode White_Space)",
            "grapheme mode, first sentence: 'equal after removing whitespace' is read as 'the same sequence of non-whitespace characters (clusters)'; pairs whose cluster sequence changes when a space is removed or added (lone regional indicators, lone jamo: '🇩 🇪' vs '🇩🇪') are judged by the literal statement under class-specific signatures `grapheme-resegmented-pair/*` (recorded known finding), so they cannot mask anything in the main class",
        ]
    }

    fn generate(rng: &mut Rng, _tier: Tier, _lane: &str) -> Case {
        let graphemes = rng.random_bool(0.5);
        let keep_unsafe = rng.random_bool(0.1);
        let mut repaired = 0u32;

        // (i) pair
        let base = solid(rng);
        // the unfiltered share of grapheme mode also puts spaces inside clusters, which gives
        // pairs whose cluster sequences differ (robustness class)
        let chars = chars_of(&base, graphemes && !(keep_unsafe && rng.random_bool(0.5)));
        let mut allowed = vec![true; chars.len().saturating_sub(1)];
        if graphemes && !keep_unsafe {
            for i in 0..allowed.len() {
                let probe = format!("{} {}", chars[i], chars[i + 1]);
                let seg: Vec<&str> = probe.graphemes(true).collect();
                if seg != vec![chars[i], " ", chars[i + 1]] {
                    allowed[i] = false;
                    repaired += 1;
                }
            }
        }
        let from = respace(rng, &chars, &allowed);
        let to = match rng.random_range(0..20) {
            0 => from.clone(),
            _ => respace(rng, &chars, &allowed),
        };

        // (ii) repair
        let mut s = {
            let f = gen::flavor(rng);
            let raw = gen::ustring(rng, f, 40);
            if rng.random_bool(0.25) {
                splice_exotic(rng, &raw)
            } else {
                raw
            }
        };
        if graphemes && !keep_unsafe && has_mixed_cluster(&s) {
            s = make_grapheme_safe(&s);
            repaired += 1;
        }
        let sc = chars_of(&s, graphemes);
        let n = sc.len();
        let (ops_mode, ops): (&str, Vec<u8>) = match rng.random_range(0..10) {
            0..=3 => ("uniform", (0..n).map(|_| rng.random_range(0..3u8)).collect()),
            4 => ("all-insert", vec![1; n]),
            5 => ("all-delete", vec![2; n]),
            6 => ("all-keep", vec![0; n]),
            7 => (
                "adversarial",
                sc.iter()
                    .map(|c| if gen::is_ws(c) { 1 } else { 2 })
                    .collect(),
            ),
            _ => (
                "sensible",
                sc.iter()
                    .map(|c| {
                        if rng.random_bool(0.5) {
                            0
                        } else if gen::is_ws(c) {
                            2
                        } else {
                            1
                        }
                    })
                    .collect(),
            ),
        };
        let bad_len = match rng.random_range(0..4) {
            0 => n + rng.random_range(1..=3),
            1 => n.saturating_sub(rng.random_range(1..=3)),
            2 => 0,
            _ => n + 1,
        };
        let bad_len = if bad_len == n { n + 1 } else { bad_len };
        let bad_ops = (0..bad_len).map(|_| rng.random_range(0..3u8)).collect();
        Case {
            graphemes,
            from,
            to,
            s,
            ops,
            ops_mode: ops_mode.to_string(),
            bad_ops,
            repaired,
        }
    }

    fn check(c: &Case, obs: &mut Obs) {
        // history round (core::history_round): the same inputs with `graphemes` flipped in between
        if history_round(
            c,
            obs,
            |c| {
                let mut v = c.clone();
                v.graphemes = !v.graphemes;
                v
            },
            Self::check,
        ) {
            return;
        }
        let g = c.graphemes;
        obs.add("generator-repaired", c.repaired as u64);
        obs.tag(if g { "mode-graphemes" } else { "mode-code-points" });

        // ------------------------------------------------------------------ (i) pair
        let pair_pre = is_clean(&c.from) && is_clean(&c.to) && strip_ws(&c.from) == strip_ws(&c.to);
        let mixed = g && (has_mixed_cluster(&c.from) || has_mixed_cluster(&c.to));
        let reseg = g && !mixed && nonws_chars(&c.from, true) != nonws_chars(&c.to, true);
        let mut n_ins = 0usize;
        let mut n_del = 0usize;
        if !pair_pre {
            // cannot happen with the generator above; a hand-written replay may do it
            obs.tag("robustness-pair-precondition");
            let _ = guarded(obs, "robustness/operations", || {
                whitespace::operations(&c.from, &c.to, g).ok()
            });
        } else if mixed || reseg {
            obs.tag(if mixed {
                "robustness-pair-mixed-cluster"
            } else {
                "robustness-pair-resegmented"
            });
            obs.add("filtered-outside-quantifier", u64::from(mixed));
            for (a, b) in [(&c.from, &c.to), (&c.to, &c.from)] {
                let res = guarded(obs, "robustness/operations", || {
                    whitespace::operations(a, b, g)
                });
                match res {
                    Some(Ok(ops)) => {
                        let rep = guarded(obs, "robustness/repair", || {
                            whitespace::repair(a, &ops, g).ok()
                        });
                        if reseg {
                            // literal reading of the statement: both texts are clean, no cluster
                            // mixes whitespace with other code points, and they are equal after
                            // removing whitespace, so the inverse law is demanded. Class-specific
                            // signatures: removing / adding the space regroups the clusters.
                            obs.check(
                                ops.len() == n_chars(a, g),
                                "grapheme-resegmented-pair/operations-length",
                                || format!("operations({a:?}, {b:?}, true) has {} entries", ops.len()),
                            );
                            obs.check(
                                rep.clone().flatten().as_deref() == Some(b.as_str()),
                                "grapheme-resegmented-pair/repair-not-inverse",
                                || format!("repair({a:?}, operations(.., {b:?})) = {rep:?}"),
                            );
                        }
                    }
                    Some(Err(e)) => {
                        if reseg {
                            obs.fail(
                                "grapheme-resegmented-pair/operations-err",
                                format!("operations({a:?}, {b:?}, true) = Err({})", e.to_string().chars().take(120).collect::<String>()),
                            );
                        }
                    }
                    None => {}
                }
            }
        } else {
            obs.tag("pair-in-quantifier");
            obs.tag_if(c.from == c.to, "pair-identical");
            obs.tag_if(c.from.is_empty(), "pair-empty");
            for (dir, a, b) in [("from->to", &c.from, &c.to), ("to->from", &c.to, &c.from)] {
                let n = n_chars(a, g);
                let Some(res) = guarded(obs, "operations", || whitespace::operations(a, b, g))
                else {
                    continue;
                };
                let ops = match res {
                    Ok(ops) => ops,
                    Err(e) => {
                        obs.fail(
                            "operations/err-on-valid-pair",
                            format!("{dir}: operations({a:?}, {b:?}, {g}) = Err({e})"),
                        );
                        continue;
                    }
                };
                obs.check(ops.len() == n, "operations/length", || {
                    format!(
                        "{dir}: {} operations for {n} characters of {a:?} (to {b:?}, graphemes {g}): {ops:?}",
                        ops.len()
                    )
                });
                if dir == "from->to" {
                    n_ins = ops.iter().filter(|o| **o == Operation::Insert).count();
                    n_del = ops.iter().filter(|o| **o == Operation::Delete).count();
                }
                match guarded(obs, "repair", || whitespace::repair(a, &ops, g)) {
                    Some(Ok(r)) => {
                        obs.check(&r == b, "repair/not-inverse-of-operations", || {
                            format!(
                                "{dir}: repair({a:?}, {ops:?}, {g}) = {r:?}, expected {b:?}"
                            )
                        });
                    }
                    Some(Err(e)) => obs.fail(
                        "repair/err-on-own-operations",
                        format!("{dir}: repair({a:?}, {ops:?}, {g}) = Err({e})"),
                    ),
                    None => {}
                }
            }
            obs.tag_if(n_ins > 0, "pair-insert");
            obs.tag_if(n_del > 0, "pair-delete");
            let multibyte = c.from.chars().any(|ch| ch.len_utf8() > 1);
            obs.tag_if(multibyte, "pair-multibyte");
            obs.tag_if(
                g && chars_of(&c.from, true).iter().any(|x| x.chars().count() > 1),
                "pair-multi-code-point-cluster",
            );
            obs.nontrivial_if(n_ins > 0 && n_del > 0 && multibyte);
            obs.max("pair-characters", n_chars(&c.from, g) as u64);
        }

        // ------------------------------------------------------------------ (ii) repair
        let n = n_chars(&c.s, g);
        let ops: Vec<Operation> = c.ops.iter().map(|b| to_op(*b)).collect();
        let bad: Vec<Operation> = c.bad_ops.iter().map(|b| to_op(*b)).collect();
        let s_mixed = g && has_mixed_cluster(&c.s);
        if s_mixed {
            obs.tag("robustness-repair-mixed-cluster");
            obs.add("filtered-outside-quantifier", 1);
            let _ = guarded(obs, "robustness/repair", || {
                whitespace::repair(&c.s, &ops, g).ok()
            });
        }
        // "a length mismatch is an error, not a panic" holds for every string
        if bad.len() != n {
            match guarded(obs, "repair-length-mismatch", || {
                whitespace::repair(&c.s, &bad, g)
            }) {
                Some(Ok(r)) => obs.fail(
                    "repair/length-mismatch-accepted",
                    format!(
                        "repair({:?}, {} ops, {g}) with {n} characters = Ok({r:?})",
                        c.s,
                        bad.len()
                    ),
                ),
                Some(Err(_)) => obs.tag("repair-length-mismatch-err"),
                None => {}
            }
        }
        if !s_mixed && ops.len() == n {
            obs.tag("repair-in-quantifier");
            match guarded(obs, "repair", || whitespace::repair(&c.s, &ops, g)) {
                Some(Ok(r)) => {
                    obs.check(strip_ws(&r) == strip_ws(&c.s), "repair/non-whitespace-changed", || {
                        format!("repair({:?}, {ops:?}, {g}) = {r:?}", c.s)
                    });
                    obs.tag_if(r != c.s, "repair-changed-string");
                    obs.tag_if(r.len() > c.s.len(), "repair-inserted");
                    obs.tag_if(r.len() < c.s.len(), "repair-deleted");
                }
                Some(Err(e)) => obs.fail(
                    "repair/err-on-matching-length",
                    format!("repair({:?}, {ops:?}, {g}) = Err({e})", c.s),
                ),
                None => {}
            }
            let keep = vec![Operation::Keep; n];
            match guarded(obs, "repair", || whitespace::repair(&c.s, &keep, g)) {
                Some(Ok(r)) => {
                    obs.check(r == c.s, "repair/all-keep-not-identity", || {
                        format!("repair({:?}, all Keep, {g}) = {r:?}", c.s)
                    });
                }
                Some(Err(e)) => obs.fail(
                    "repair/err-on-matching-length",
                    format!("repair({:?}, all Keep, {g}) = Err({e})", c.s),
                ),
                None => {}
            }
            obs.tag_if(c.ops_mode == "uniform", "ops-uniform");
            obs.tag_if(c.ops_mode == "all-insert", "ops-all-insert");
            obs.tag_if(c.ops_mode == "all-delete", "ops-all-delete");
            obs.tag_if(c.ops_mode == "all-keep", "ops-all-keep");
            obs.tag_if(c.ops_mode == "adversarial", "ops-adversarial");
            obs.tag_if(c.ops_mode == "sensible", "ops-sensible");
            obs.tag_if(c.s.chars().any(|ch| ch.is_whitespace() && ch != ' '), "repair-non-ascii-whitespace");
        }
        obs.note(json!({
            "pair_inserts": n_ins, "pair_deletes": n_del,
            "pair_outside_quantifier": mixed || reseg,
            "repair_characters": n, "repair_outside_quantifier": s_mixed,
        }));
    }
}
