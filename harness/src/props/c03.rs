//! C03 — BPE tokenization applies the learned merges canonically (lowest merge id, leftmost on
//! ties, until no pair is mergeable, starting from single bytes, per whitespace-prefixed word).
//!
//! This module also hosts what C02 shares with it (c02.rs imports it from here): the case type,
//! the merge table generators (i)-(iii) of DESIGN.md section 5, the string generator, the
//! independent reference BPE and the construction of the real tokenizer from a case.
use crate::core::*;
use crate::gen;
use rand::seq::IndexedRandom;
use rand::Rng as _;
use serde::{Deserialize, Serialize};
use serde_json::json;
use std::collections::{BTreeMap, BTreeSet};
use std::path::PathBuf;
use std::sync::atomic::{AtomicU64, Ordering};
use text_utils::tokenization::{
    train_bpe, BPETokenizer, BPETokenizerConfig, MergeOps, SpecialConfig, Tokenize,
};
use text_utils::unicode::Normalization;
use text_utils::utils::SerializeMsgPack;

pub struct C03;

// ---------------------------------------------------------------------------------------
// case type (shared with C02)

/// byte strings are stored as `escape_ascii` text ("\xc3\xa4b") so that replays stay readable
mod esc {
    use serde::{Deserialize, Deserializer, Serializer};

    pub fn escape(b: &[u8]) -> String {
        b.escape_ascii().to_string()
    }

    pub fn unescape(s: &str) -> Option<Vec<u8>> {
        let b = s.as_bytes();
        let mut out = vec![];
        let mut i = 0;
        while i < b.len() {
            if b[i] != b'\\' {
                out.push(b[i]);
                i += 1;
                continue;
            }
            match *b.get(i + 1)? {
                b'x' => {
                    let h = std::str::from_utf8(b.get(i + 2..i + 4)?).ok()?;
                    out.push(u8::from_str_radix(h, 16).ok()?);
                    i += 4;
                    continue;
                }
                b't' => out.push(b'\t'),
                b'n' => out.push(b'\n'),
                b'r' => out.push(b'\r'),
                b'0' => out.push(0),
                c @ (b'\\' | b'\'' | b'"') => out.push(c),
                _ => return None,
            }
            i += 2;
        }
        Some(out)
    }

    pub fn serialize<S: Serializer>(v: &[Vec<u8>], s: S) -> Result<S::Ok, S::Error> {
        s.collect_seq(v.iter().map(|e| escape(e)))
    }

    pub fn deserialize<'de, D: Deserializer<'de>>(d: D) -> Result<Vec<Vec<u8>>, D::Error> {
        let v = Vec::<String>::deserialize(d)?;
        v.iter()
            .map(|s| unescape(s).ok_or_else(|| serde::de::Error::custom("bad escape in merge entry")))
            .collect()
    }
}

pub use esc::escape;

#[derive(Serialize, Deserialize, Clone, Debug)]
pub enum Table {
    /// entry i has merge id i
    Hand {
        kind: String,
        #[serde(with = "esc")]
        entries: Vec<Vec<u8>>,
    },
    /// the table is produced inside `check` by the repo's `train_bpe` on this corpus (its
    /// tie-breaking among equally frequent pairs follows hash map order, so the table is part of
    /// every violation detail)
    Trained {
        corpus: String,
        vocab_size: usize,
        num_special_tokens: usize,
        nfkc: bool,
        num_threads: u8,
    },
}

#[derive(Serialize, Deserialize, Clone, Debug)]
pub struct Cfg {
    pub max_vocab_size: Option<usize>,
    pub use_graphemes: bool,
    pub tokens: Vec<String>,
    pub pad: String,
    pub prefix: Vec<String>,
    pub suffix: Vec<String>,
}

#[derive(Serialize, Deserialize, Clone, Debug)]
pub struct Case {
    pub table: Table,
    pub cfgs: Vec<Cfg>,
    pub strings: Vec<String>,
}

// ---------------------------------------------------------------------------------------
// reference model

/// `\s+\S+|^\S+` without a regex: a word is a (possibly empty, only at the start of the string)
/// run of White_Space code points followed by a non-empty run of other code points; whitespace
/// after the last word belongs to no word
pub fn ref_words(s: &str) -> Vec<&str> {
    let mut words = vec![];
    let mut start = 0;
    let mut seen_non_ws = false;
    for (i, c) in s.char_indices() {
        if c.is_whitespace() {
            if seen_non_ws {
                words.push(&s[start..i]);
                start = i;
                seen_non_ws = false;
            }
        } else {
            seen_non_ws = true;
        }
    }
    if seen_non_ws {
        words.push(&s[start..]);
    }
    words
}

/// ids exactly 0..n-1 (given: position = id) and every entry is the concatenation of two earlier
/// tokens (single bytes or entries with a smaller id), no duplicates
pub fn well_formed(entries: &[Vec<u8>]) -> bool {
    let mut seen: BTreeSet<&[u8]> = BTreeSet::new();
    for e in entries {
        if e.len() < 2 || seen.contains(e.as_slice()) {
            return false;
        }
        let ok = (1..e.len()).any(|k| {
            let (x, y) = e.split_at(k);
            (x.len() == 1 || seen.contains(x)) && (y.len() == 1 || seen.contains(y))
        });
        if !ok {
            return false;
        }
        seen.insert(e);
    }
    true
}

/// the table the tokenizer must use under `max_vocab_size`: ids < m - |special tokens| - 256
pub fn effective_table(entries: &[Vec<u8>], cfg: &Cfg) -> BTreeMap<Vec<u8>, u32> {
    let n = match cfg.max_vocab_size {
        None => entries.len(),
        Some(m) => m
            .saturating_sub(cfg.tokens.len())
            .saturating_sub(256)
            .min(entries.len()),
    };
    entries[..n]
        .iter()
        .enumerate()
        .map(|(i, e)| (e.clone(), i as u32))
        .collect()
}

#[derive(Default, Clone, Debug)]
pub struct RefOut {
    pub ids: Vec<u32>,
    /// byte string of every id in `ids`
    pub toks: Vec<Vec<u8>>,
    pub words: usize,
    pub merges: usize,
    /// words with >= 2 merges of which at least one had an already merged token as operand
    pub deep_words: usize,
    pub max_merges_in_word: usize,
    /// steps in which the lowest id was available at more than one position
    pub ties: usize,
    /// steps in which the chosen pair shared a token with another mergeable pair
    pub overlaps: usize,
    /// steps in which a pair with a higher id stood left of the chosen pair
    pub id_beats_position: usize,
}

/// the statement, literally: among all adjacent pairs whose concatenation is a table entry merge
/// the one with the lowest id (leftmost on ties); repeat until none is left
fn ref_bpe_word(word: &[u8], table: &BTreeMap<Vec<u8>, u32>, out: &mut RefOut) {
    let mut toks: Vec<Vec<u8>> = word.iter().map(|b| vec![*b]).collect();
    let mut ids: Vec<u32> = word.iter().map(|b| *b as u32).collect();
    let (mut merges, mut merged_operand) = (0usize, false);
    loop {
        let cands: Vec<(usize, u32)> = (0..toks.len().saturating_sub(1))
            .filter_map(|i| {
                let cat = [toks[i].as_slice(), toks[i + 1].as_slice()].concat();
                table.get(&cat).map(|id| (i, *id))
            })
            .collect();
        let Some(&(_, best)) = cands.iter().min_by_key(|(_, id)| *id) else {
            break;
        };
        // leftmost among the positions that carry the lowest id
        let Some(&(pos, _)) = cands.iter().find(|(_, id)| *id == best) else {
            break;
        };
        if cands.iter().filter(|(_, id)| *id == best).count() > 1 {
            out.ties += 1;
        }
        if cands.iter().any(|(i, _)| i + 1 == pos || *i == pos + 1) {
            out.overlaps += 1;
        }
        if cands.iter().any(|(i, _)| *i < pos) {
            out.id_beats_position += 1;
        }
        if toks[pos].len() > 1 || toks[pos + 1].len() > 1 {
            merged_operand = true;
        }
        let right = toks.remove(pos + 1);
        toks[pos].extend(right);
        ids.remove(pos + 1);
        ids[pos] = 256 + best;
        merges += 1;
    }
    out.merges += merges;
    out.max_merges_in_word = out.max_merges_in_word.max(merges);
    if merges >= 2 && merged_operand {
        out.deep_words += 1;
    }
    out.ids.extend(ids);
    out.toks.extend(toks);
}

pub fn ref_bpe(s: &str, table: &BTreeMap<Vec<u8>, u32>) -> RefOut {
    let mut out = RefOut::default();
    for w in ref_words(s) {
        out.words += 1;
        ref_bpe_word(w.as_bytes(), table, &mut out);
    }
    out
}

// ---------------------------------------------------------------------------------------
// running the real thing

static CASE_COUNTER: AtomicU64 = AtomicU64::new(0);

/// per-case files temp_dir()/tuverif-<pid>/<tag>-<n>-*, removed on drop (also when unwinding).
/// The (then empty) directory itself is left in place: removing and re-creating it for every case
/// costs more than the case.
pub struct Scratch {
    dir: PathBuf,
    stem: String,
    files: Vec<PathBuf>,
}

impl Scratch {
    pub fn new(tag: &str) -> std::io::Result<Scratch> {
        let n = CASE_COUNTER.fetch_add(1, Ordering::Relaxed);
        let dir = std::env::temp_dir().join(format!("tuverif-{}", std::process::id()));
        if !dir.is_dir() {
            std::fs::create_dir_all(&dir)?;
        }
        Ok(Scratch {
            dir,
            stem: format!("{tag}-{n}"),
            files: vec![],
        })
    }

    pub fn file(&mut self, name: &str) -> PathBuf {
        let p = self.dir.join(format!("{}-{name}", self.stem));
        self.files.push(p.clone());
        p
    }
}

impl Drop for Scratch {
    fn drop(&mut self) {
        for f in &self.files {
            let _ = std::fs::remove_file(f);
        }
    }
}

pub struct Env {
    /// keeps the files alive until the case is over
    pub _scratch: Scratch,
    pub merge_file: PathBuf,
    /// entry i has merge id i
    pub entries: Vec<Vec<u8>>,
    pub kind: String,
}

pub fn show_table(entries: &[Vec<u8>]) -> String {
    let mut v: Vec<String> = entries
        .iter()
        .enumerate()
        .map(|(i, e)| format!("{i}:\"{}\"", escape(e)))
        .collect();
    if v.len() > 120 {
        // huge tables of the `large` lane: head and tail only (the replay file has all of it)
        let tail = v.split_off(v.len() - 20);
        v.truncate(60);
        v.push(format!("... ({} entries in total) ...", entries.len()));
        v.extend(tail);
    }
    format!("[{}]", v.join(", "))
}

pub fn show_toks(toks: &[Vec<u8>]) -> String {
    let v: Vec<String> = toks.iter().map(|e| format!("\"{}\"", escape(e))).collect();
    format!("[{}]", v.join(", "))
}

/// write (or train) the merge file of the case; None (and an inconclusive record) when the
/// preconditions of the property cannot be established
pub fn setup(table: &Table, tag: &str, obs: &mut Obs) -> Option<Env> {
    let mut scratch = match Scratch::new(tag) {
        Ok(s) => s,
        Err(e) => {
            obs.inconclusive(format!("cannot create scratch directory: {e}"));
            return None;
        }
    };
    let merge_file = scratch.file("merges.bin");
    match table {
        Table::Hand { kind, entries } => {
            if !well_formed(entries) {
                obs.inconclusive("harness: generated merge table is not well-formed");
                return None;
            }
            if let Err(e) = write_merge_file(&merge_file, entries) {
                obs.inconclusive(format!("cannot write merge file: {e}"));
                return None;
            }
            Some(Env {
                _scratch: scratch,
                merge_file,
                entries: entries.clone(),
                kind: kind.clone(),
            })
        }
        Table::Trained {
            corpus,
            vocab_size,
            num_special_tokens,
            nfkc,
            num_threads,
        } => {
            let corpus_file = scratch.file("corpus.txt");
            let norm = if *nfkc { Some(Normalization::NFKC) } else { None };
            let mut attempt = 0;
            let ops = loop {
                attempt += 1;
                // a failure that comes with a vanished file is the environment's doing (something
                // cleaned the temp directory): try again, never judge it
                let env_fault = |p: &std::path::Path| !p.is_file();
                if let Some(dir) = corpus_file.parent() {
                    if !dir.is_dir() {
                        let _ = std::fs::create_dir_all(dir);
                    }
                }
                if let Err(e) = std::fs::write(&corpus_file, corpus) {
                    if attempt < 3 {
                        continue;
                    }
                    obs.inconclusive(format!("cannot write corpus: {e}"));
                    return None;
                }
                let r = catch(|| {
                    train_bpe(
                        &[corpus_file.as_path()],
                        *vocab_size,
                        *num_special_tokens,
                        merge_file.as_path(),
                        None,
                        norm,
                        *num_threads,
                        false,
                    )
                });
                // train_bpe replaced the global panic hook
                install_quiet_panic_hook();
                let failure = match r {
                    Ok(Ok(())) => match MergeOps::load(&merge_file) {
                        Ok(o) => break o,
                        Err(e) => format!("cannot load the trained merge file: {e}"),
                    },
                    // training itself is C19's subject; without a table there is nothing to judge
                    Ok(Err(e)) => format!("train_bpe returned an error: {e}"),
                    Err((loc, msg)) => format!("train_bpe panicked at {loc}: {msg}"),
                };
                if attempt < 3 && (env_fault(&corpus_file) || env_fault(&merge_file)) {
                    continue;
                }
                obs.inconclusive(failure);
                return None;
            };
            let mut by_id: Vec<(u32, Vec<u8>)> = ops.into_iter().map(|(b, i)| (i, b)).collect();
            by_id.sort();
            let ids_ok = by_id.iter().enumerate().all(|(i, (id, _))| *id as usize == i);
            let entries: Vec<Vec<u8>> = by_id.into_iter().map(|(_, b)| b).collect();
            if !ids_ok || !well_formed(&entries) {
                // outside the quantifier of C02/C03 (C19 judges the trainer)
                obs.inconclusive(format!(
                    "train_bpe produced a table that is not well-formed: {}",
                    show_table(&entries)
                ));
                return None;
            }
            Some(Env {
                _scratch: scratch,
                merge_file,
                entries,
                kind: "trained".to_string(),
            })
        }
    }
}

pub fn build_tokenizer(env: &Env, cfg: &Cfg, obs: &mut Obs) -> Option<BPETokenizer> {
    let bpe_cfg = BPETokenizerConfig {
        merge_file: env.merge_file.clone(),
        max_vocab_size: cfg.max_vocab_size,
        use_graphemes: cfg.use_graphemes,
    };
    let special = SpecialConfig {
        pad: cfg.pad.clone(),
        tokens: cfg.tokens.clone(),
        prefix: cfg.prefix.clone(),
        suffix: cfg.suffix.clone(),
    };
    let mut attempt = 0;
    loop {
        attempt += 1;
        let (b, sp) = (bpe_cfg.clone(), special.clone());
        match guarded(obs, "new", || BPETokenizer::new(b, sp)) {
            Some(Ok(t)) => return Some(t),
            Some(Err(e)) => {
                if !env.merge_file.is_file() {
                    // the environment interfered (something cleaned the temp directory): write
                    // the file again; this is never a verdict about the tokenizer
                    if attempt < 3 && write_merge_file(&env.merge_file, &env.entries).is_ok() {
                        continue;
                    }
                    obs.inconclusive(format!("merge file vanished from the temp directory: {e}"));
                    return None;
                }
                obs.fail(
                    "new/err",
                    format!(
                        "BPETokenizer::new failed on a well-formed table: {e}; table {} cfg {cfg:?}",
                        show_table(&env.entries)
                    ),
                );
                return None;
            }
            None => return None,
        }
    }
}

/// the repo's own writer of the merge file format; creates the directory if it is missing
pub fn write_merge_file(path: &std::path::Path, entries: &[Vec<u8>]) -> anyhow::Result<()> {
    let ops: MergeOps = entries
        .iter()
        .enumerate()
        .map(|(i, e)| (e.clone(), i as u32))
        .collect();
    if ops.save(path).is_ok() {
        return Ok(());
    }
    if let Some(dir) = path.parent() {
        std::fs::create_dir_all(dir)?;
    }
    ops.save(path)
}

pub fn kind_tag(kind: &str) -> &'static str {
    match kind {
        "random-concat" => "table/random-concat",
        "guided" => "table/guided",
        "substrings" => "table/substrings",
        "trained" => "table/trained",
        "huge" => "table/huge",
        _ => "table/other",
    }
}

// ---------------------------------------------------------------------------------------
// generators

#[derive(Clone, Debug)]
pub struct Alphabet {
    pub letters: Vec<String>,
    pub ws: Vec<String>,
}

const LETTERS: &[&str] = &["a", "b", "c", "d"];
const MULTI: &[&str] = &["ä", "ß", "é", "Ж", "語", "日", "😀", "𝒳", "e\u{301}"];
const WS_EXTRA: &[&str] = &["\n", "\t", "\u{a0}", "\u{3000}", "\u{2003}", "\u{85}", "\r"];

fn gen_alphabet(rng: &mut Rng) -> Alphabet {
    let n = rng.random_range(2..=4);
    let mut letters: Vec<String> = LETTERS
        .choose_multiple(rng, n)
        .map(|s| s.to_string())
        .collect();
    letters.sort();
    if rng.random_bool(0.5) {
        letters.push(MULTI.choose(rng).unwrap_or(&"ä").to_string());
    }
    if rng.random_bool(0.12) {
        letters.push(MULTI.choose(rng).unwrap_or(&"ß").to_string());
        letters.dedup();
    }
    let mut ws = vec![" ".to_string()];
    if rng.random_bool(0.3) {
        ws.push(WS_EXTRA.choose(rng).unwrap_or(&"\n").to_string());
    }
    Alphabet { letters, ws }
}

fn pick_ws(rng: &mut Rng, a: &Alphabet) -> String {
    if a.ws.len() > 1 && rng.random_bool(0.3) {
        a.ws[rng.random_range(1..a.ws.len())].clone()
    } else {
        a.ws[0].clone()
    }
}

fn ws_run(rng: &mut Rng, a: &Alphabet) -> String {
    let n = if rng.random_bool(0.8) { 1 } else { rng.random_range(2..=3) };
    (0..n).map(|_| pick_ws(rng, a)).collect()
}

fn gen_word(rng: &mut Rng, a: &Alphabet, max_syms: usize) -> String {
    let n = rng.random_range(1..=max_syms.max(1));
    (0..n)
        .map(|_| a.letters.choose(rng).cloned().unwrap_or_else(|| "a".into()))
        .collect()
}

/// the non-whitespace content of the entries that are valid UTF-8 on their own
fn entry_pieces(entries: &[Vec<u8>]) -> Vec<String> {
    entries
        .iter()
        .filter_map(|e| std::str::from_utf8(e).ok())
        .map(|s| s.chars().filter(|c| !c.is_whitespace()).collect::<String>())
        .filter(|s| !s.is_empty())
        .collect()
}

/// a string over the alphabet: words of symbols and of table entries, whitespace runs between
/// them, optional leading / trailing whitespace
fn gen_string(rng: &mut Rng, a: &Alphabet, pieces: &[String], trailing_p: f64) -> String {
    let mut s = String::new();
    if rng.random_bool(0.3) {
        s.push_str(&ws_run(rng, a));
    }
    // `large` lane: either long words or many words per string (not both: cost)
    let (wscale, nscale) = match gen::scale() {
        1 => (1, 1),
        // (words longer than ~1500 bytes cost the quadratic reference CPU-minutes)
        k if rng.random_bool(0.5) => (k.min(40), 1),
        k => (1, k),
    };
    let n_words = match rng.random_range(0..20) {
        0 => 0,
        1..=7 => nscale,
        _ => rng.random_range(2..=5 * nscale),
    };
    for w in 0..n_words {
        if w > 0 {
            s.push_str(&ws_run(rng, a));
        }
        let mut word = String::new();
        if pieces.is_empty() || rng.random_bool(0.45) {
            word = gen_word(rng, a, 8 * wscale);
        } else {
            for _ in 0..rng.random_range(1..=3 * wscale) {
                if rng.random_bool(0.75) {
                    word.push_str(pieces.choose(rng).map(|s| s.as_str()).unwrap_or("a"));
                } else {
                    word.push_str(&gen_word(rng, a, 2));
                }
                if word.len() > 30 * wscale {
                    break;
                }
            }
        }
        s.push_str(&word);
    }
    if rng.random_bool(trailing_p) {
        s.push_str(&ws_run(rng, a));
    }
    s
}

fn distinct_bytes(a: &Alphabet) -> Vec<u8> {
    let set: BTreeSet<u8> = a
        .letters
        .iter()
        .chain(a.ws.iter())
        .flat_map(|s| s.bytes())
        .collect();
    set.into_iter().collect()
}

/// (i) start from the bytes of the alphabet, repeatedly concatenate two existing tokens
fn table_random_concat(rng: &mut Rng, a: &Alphabet) -> Vec<Vec<u8>> {
    let singles: Vec<Vec<u8>> = distinct_bytes(a).into_iter().map(|b| vec![b]).collect();
    let target = 1 + gen::len_geo(rng, 7.0, 24);
    let mut entries: Vec<Vec<u8>> = vec![];
    let mut seen: BTreeSet<Vec<u8>> = BTreeSet::new();
    for _ in 0..target * 12 {
        if entries.len() >= target {
            break;
        }
        let pick = |rng: &mut Rng, entries: &Vec<Vec<u8>>| -> Vec<u8> {
            if !entries.is_empty() && rng.random_bool(0.5) {
                entries.choose(rng).cloned().unwrap_or_default()
            } else {
                singles.choose(rng).cloned().unwrap_or_else(|| vec![b'a'])
            }
        };
        let x = pick(rng, &entries);
        let y = pick(rng, &entries);
        let cat = [x, y].concat();
        if cat.len() > gen::sc(14) || seen.contains(&cat) {
            continue;
        }
        seen.insert(cat.clone());
        entries.push(cat);
    }
    entries
}

/// (i') like training: segment sample words with the table built so far and add the
/// concatenation of a random adjacent pair of the current segmentation (every entry fires)
fn table_guided(rng: &mut Rng, a: &Alphabet, samples: &[String]) -> Vec<Vec<u8>> {
    let target = 2 + gen::len_geo(rng, 8.0, 28);
    let mut entries: Vec<Vec<u8>> = vec![];
    let mut table: BTreeMap<Vec<u8>, u32> = BTreeMap::new();
    for _ in 0..target * 4 {
        if entries.len() >= target {
            break;
        }
        let fresh;
        let w: &str = if !samples.is_empty() && rng.random_bool(0.8) {
            samples.choose(rng).map(|s| s.as_str()).unwrap_or("ab")
        } else {
            fresh = format!("{}{}", ws_run(rng, a), gen_word(rng, a, 6));
            &fresh
        };
        let Some(word) = ref_words(w).into_iter().next() else {
            continue;
        };
        let mut out = RefOut::default();
        ref_bpe_word(word.as_bytes(), &table, &mut out);
        if out.toks.len() < 2 {
            continue;
        }
        let i = rng.random_range(0..out.toks.len() - 1);
        let cat = [out.toks[i].as_slice(), out.toks[i + 1].as_slice()].concat();
        if table.contains_key(&cat) {
            continue;
        }
        table.insert(cat.clone(), entries.len() as u32);
        entries.push(cat);
    }
    entries
}

/// `large` lane: a table beyond 2^16 entries: all two-symbol strings over 40 ascii symbols, then
/// random concatenations of two of them up to 65 300 - 70 000 entries
pub fn table_huge(rng: &mut Rng) -> (Alphabet, Vec<Vec<u8>>) {
    let syms: Vec<u8> = (b'a'..=b'z').chain(b'0'..=b'9').chain(*b"+-*/").collect();
    let mut entries: Vec<Vec<u8>> = vec![];
    for x in &syms {
        for y in &syms {
            entries.push(vec![*x, *y]);
        }
    }
    let pairs = entries.len();
    let target = rng.random_range(65_300..=70_000);
    let mut seen: BTreeSet<(usize, usize)> = BTreeSet::new();
    while entries.len() < target {
        let (p, q) = (rng.random_range(0..pairs), rng.random_range(0..pairs));
        if seen.insert((p, q)) {
            let cat = [entries[p].as_slice(), entries[q].as_slice()].concat();
            entries.push(cat);
        }
    }
    let a = Alphabet {
        letters: syms.iter().map(|b| (*b as char).to_string()).collect(),
        ws: vec![" ".to_string()],
    };
    (a, entries)
}

const PATTERNS: &[&str] = &[
    "abcd", "aaaa", "aaaaa", "abab", "abcabc", "abcbcd", " ab", " abc", "  ab", "aäb", "ä語", " ä",
    "a b", "ab c", "ab\u{a0}c", "\u{a0}ab", "aab", "abb", "abba", "😀a", "ßß",
];

/// (ii) overlapping / competing entries: a random subset of the byte substrings of a few
/// pattern words, in a random order that keeps the table well-formed
fn table_substrings(rng: &mut Rng, patterns: &[String]) -> Vec<Vec<u8>> {
    let mut cands: BTreeSet<Vec<u8>> = BTreeSet::new();
    let keep = *[0.35, 0.6, 1.0].choose(rng).unwrap_or(&0.6);
    for p in patterns {
        let b = p.as_bytes();
        for i in 0..b.len() {
            for j in i + 2..=b.len().min(i + 8) {
                if rng.random_bool(keep) {
                    cands.insert(b[i..j].to_vec());
                }
            }
        }
    }
    let mut remaining: Vec<Vec<u8>> = cands.into_iter().collect();
    let mut placed: BTreeSet<Vec<u8>> = BTreeSet::new();
    let mut entries = vec![];
    while entries.len() < 40 {
        let ready: Vec<usize> = (0..remaining.len())
            .filter(|&r| {
                let e = &remaining[r];
                (1..e.len()).any(|k| {
                    let (x, y) = e.split_at(k);
                    (x.len() == 1 || placed.contains(x)) && (y.len() == 1 || placed.contains(y))
                })
            })
            .collect();
        let Some(&r) = ready.choose(rng) else {
            break;
        };
        let e = remaining.swap_remove(r);
        placed.insert(e.clone());
        entries.push(e);
    }
    entries
}

fn gen_corpus(rng: &mut Rng, a: &Alphabet) -> (String, Vec<String>) {
    let n_vocab = rng.random_range(3..=gen::sc(10));
    let vocab: Vec<String> = (0..n_vocab).map(|_| gen_word(rng, a, 5)).collect();
    // Zipfian weights 1/(rank+1)
    let weights: Vec<f64> = (0..n_vocab).map(|i| 1.0 / (i as f64 + 1.0)).collect();
    let total: f64 = weights.iter().sum();
    let n_lines = rng.random_range(4..=gen::sc(40));
    let mut corpus = String::new();
    for _ in 0..n_lines {
        let n_words = rng.random_range(1..=12);
        for w in 0..n_words {
            if w > 0 {
                corpus.push_str(match rng.random_range(0..12) {
                    0 => "\t",
                    1 => "  ",
                    _ => " ",
                });
            }
            let mut x = rng.random::<f64>() * total;
            let mut k = 0;
            while k + 1 < n_vocab && x > weights[k] {
                x -= weights[k];
                k += 1;
            }
            corpus.push_str(&vocab[k]);
        }
        corpus.push('\n');
    }
    (corpus, vocab)
}

fn gen_cfgs(rng: &mut Rng, n_entries: usize) -> Vec<Cfg> {
    let n = rng.random_range(1..=2);
    (0..n)
        .map(|i| {
            let mut tokens: Vec<String> = ["<unk>", "<bos>", "<eos>", "<pad>"]
                .iter()
                .map(|s| s.to_string())
                .collect();
            if rng.random_bool(0.3) {
                for k in 0..rng.random_range(1..=3) {
                    tokens.push(format!("<extra_{k}>"));
                }
            }
            if rng.random_bool(0.1) {
                tokens.retain(|t| t != "<unk>");
            }
            let specials = |rng: &mut Rng| -> Vec<String> {
                let k = match rng.random_range(0..10) {
                    0..=4 => 0,
                    5..=8 => 1,
                    _ => 2,
                };
                (0..k)
                    .map(|_| tokens.choose(rng).cloned().unwrap_or_else(|| "<pad>".into()))
                    .collect()
            };
            let prefix = specials(rng);
            let suffix = specials(rng);
            // the first config mostly uses the whole table
            let p_limit = if i == 0 { 0.25 } else { 0.7 };
            let max_vocab_size = if rng.random_bool(p_limit) {
                Some(match rng.random_range(0..10) {
                    0 => rng.random_range(0..=256 + tokens.len()),
                    1 => 256 + tokens.len() + n_entries + rng.random_range(0..=5),
                    _ => 256 + tokens.len() + rng.random_range(0..=n_entries),
                })
            } else {
                None
            };
            Cfg {
                max_vocab_size,
                use_graphemes: rng.random_bool(0.5),
                tokens,
                pad: "<pad>".to_string(),
                prefix,
                suffix,
            }
        })
        .collect()
}

/// `wild_p`: share of strings drawn from the general Unicode generator instead of the table's
/// alphabet; `trailing_p`: share of alphabet strings that end in whitespace
pub fn gen_case(rng: &mut Rng, wild_p: f64, trailing_p: f64) -> Case {
    let mut a = gen_alphabet(rng);
    let n_strings = if gen::scale() > 1 { rng.random_range(3..=6) } else { rng.random_range(5..=20) };
    let mut strings: Vec<String> = vec![];
    let kind = rng.random_range(0..100);
    let (table, pieces, n_entries) = if gen::scale() == 250 && rng.random_bool(0.6) {
        let (alpha, entries) = table_huge(rng);
        a = alpha;
        // strings mostly from the entries with the highest ids
        let n = entries.len();
        let pieces: Vec<String> = (0..40)
            .map(|_| {
                let i = if rng.random_bool(0.8) { rng.random_range(n - 6000..n) } else { rng.random_range(0..n) };
                String::from_utf8_lossy(&entries[i]).to_string()
            })
            .collect();
        (
            Table::Hand {
                kind: "huge".to_string(),
                entries,
            },
            pieces,
            n,
        )
    } else if kind < 12 {
        // (iii) trained
        let (corpus, vocab) = gen_corpus(rng, &a);
        let merges = rng.random_range(1..=gen::sc(10));
        let (vocab_size, k) = if gen::scale() > 1 {
            // train_bpe wants a multiple of 64
            let v = (256 + 64 + merges).div_ceil(64) * 64;
            (v, v - 256 - merges)
        } else if rng.random_bool(0.7) {
            (320, 64 - merges)
        } else {
            (384, 128 - merges)
        };
        // frequent words as they occur in the corpus (inner words carry one space) and bare
        for w in vocab.iter().take(5) {
            strings.push(format!(" {w}"));
            if rng.random_bool(0.4) {
                strings.push(w.clone());
            }
        }
        if let Some(l) = corpus.lines().next() {
            strings.push(l.to_string());
        }
        (
            Table::Trained {
                corpus,
                vocab_size,
                num_special_tokens: k,
                nfkc: rng.random_bool(0.5),
                num_threads: rng.random_range(0..=3),
            },
            vocab,
            merges,
        )
    } else {
        let (kind, entries) = if kind < 37 {
            ("random-concat", table_random_concat(rng, &a))
        } else if kind < 72 {
            let samples: Vec<String> = (0..rng.random_range(1..=5))
                .map(|_| {
                    let lead = if rng.random_bool(0.7) { ws_run(rng, &a) } else { String::new() };
                    format!("{lead}{}", gen_word(rng, &a, 8))
                })
                .collect();
            let e = table_guided(rng, &a, &samples);
            strings.extend(samples);
            ("guided", e)
        } else {
            let n_patterns = rng.random_range(1..=3);
            let mut patterns: Vec<String> = PATTERNS
                .choose_multiple(rng, n_patterns)
                .map(|s| s.to_string())
                .collect();
            if rng.random_bool(0.4) {
                patterns.push(format!("{}{}", if rng.random_bool(0.5) { " " } else { "" }, gen_word(rng, &a, 6)));
            }
            // the strings must be over the letters of the patterns
            let mut letters: BTreeSet<String> = BTreeSet::new();
            let mut ws: BTreeSet<String> = BTreeSet::new();
            for c in patterns.iter().flat_map(|p| p.chars()) {
                if c.is_whitespace() {
                    ws.insert(c.to_string());
                } else {
                    letters.insert(c.to_string());
                }
            }
            ws.remove(" ");
            a = Alphabet {
                letters: letters.into_iter().collect(),
                ws: std::iter::once(" ".to_string()).chain(ws).collect(),
            };
            let e = table_substrings(rng, &patterns);
            for p in &patterns {
                strings.push(p.clone());
                if rng.random_bool(0.5) {
                    strings.push(format!("{p}{p}"));
                }
            }
            ("substrings", e)
        };
        let pieces = entry_pieces(&entries);
        let n = entries.len();
        (
            Table::Hand {
                kind: kind.to_string(),
                entries,
            },
            pieces,
            n,
        )
    };
    while strings.len() < n_strings {
        let r = rng.random::<f64>();
        if r < wild_p {
            let f = gen::flavor(rng);
            strings.push(gen::ustring(rng, f, 40));
        } else if r < wild_p + 0.03 {
            // whitespace only / empty
            let n = rng.random_range(0..=3);
            strings.push((0..n).map(|_| pick_ws(rng, &a)).collect());
        } else if r < wild_p + 0.06 {
            // special token spellings are ordinary text when special tokens are ignored
            let sp = gen::SPECIAL_LIKE.choose(rng).copied().unwrap_or("<pad>");
            strings.push(format!("{}{sp}{}", gen_string(rng, &a, &pieces, 0.3), gen_word(rng, &a, 3)));
        } else {
            strings.push(gen_string(rng, &a, &pieces, trailing_p));
        }
    }
    // near-duplicates of earlier strings (one character appended to / removed from a word: a
    // control character, the word's own last character, a letter): the same tokenizer sees words
    // that agree on a prefix, which is what a cache keyed by a truncated or padded word confuses
    if !strings.is_empty() && rng.random_bool(0.3) {
        for _ in 0..rng.random_range(1..=3) {
            let base = strings.choose(rng).cloned().unwrap_or_default();
            let mut words: Vec<String> = base.split(' ').map(|w| w.to_string()).collect();
            if let Some(w) = words.iter_mut().filter(|w| !w.is_empty()).last() {
                match rng.random_range(0..5) {
                    0 => w.push('\0'),
                    1 => w.push('\u{1f}'),
                    2 => {
                        if let Some(ch) = w.chars().last() {
                            w.push(ch);
                        }
                    }
                    3 => {
                        w.pop();
                    }
                    _ => w.push_str(a.letters.first().map(|s| s.as_str()).unwrap_or("a")),
                }
            }
            strings.push(words.join(" "));
        }
    }
    strings.truncate(24);
    Case {
        table,
        cfgs: gen_cfgs(rng, n_entries),
        strings,
    }
}

// ---------------------------------------------------------------------------------------

impl Prop for C03 {
    type Case = Case;
    const ID: &'static str = "C03";
    const RESETS_PANIC_HOOK: bool = true;

    fn lanes(tier: Tier) -> Vec<Lane> {
        vec![
            Lane::new("main", tier.pick(48_000, 800_000))
                .cap(tier.pick(120, 1200))
                .floor(tier.pick(8_000, 100_000)),
            // every length 10 / 50 / 250 times bigger: tables of up to thousands of entries, words
            // of up to 2000 symbols or strings of up to 1250 words, trainings with hundreds of merges
            Lane::new("large", tier.pick(1_600, 32_000))
                .cap(tier.pick(150, 1200))
                .floor(tier.pick(100, 2_000)),
        ]
    }

    fn rule() -> &'static str {
        "a case = one merge table + 1-2 tokenizer configs (max_vocab_size None / 256+k+|specials| / \
         below 256 / above the table, prefix/suffix lists of 0-2 special tokens) + 5-24 strings. Tables: \
         (i) random concatenations of existing tokens over the bytes of a 2-6 symbol alphabet (ascii \
         letters, optionally 2/3/4-byte letters, space plus optionally another White_Space code point), \
         (i') guided: like training, the concatenation of a random adjacent pair of the current \
         reference segmentation of sample words is appended (every entry fires, depth grows), (ii) \
         adversarial: random subsets of all byte substrings of pattern words (abcd, aaaa, abab, ' ab', \
         'a\u{e4}b' across the UTF-8 boundary, 'a b' with interior whitespace ...) in a random order that \
         keeps the table well-formed, (iii) trained by the repo's train_bpe (vocab 320/384, 1-10 \
         merges, NFKC or none, 0-3 threads) on a Zipfian corpus of 4-40 lines; its frequent words are \
         among the strings. Strings are over the table's alphabet and built from table entries, with \
         leading / multiple / trailing whitespace, a few wild Unicode strings and special-token \
         spellings. Every (config, string) is tokenized with ignore_special_tokens = true and the ids \
         between prefix and suffix are compared for equality with an independent reference BPE \
         (char::is_whitespace word scan, quadratic lowest-id-leftmost merge loop over the truncated \
         table). non-trivial = in some word the reference performs >= 2 merges and at least one merge \
         has an already merged token as operand."
    }

    fn assumptions() -> Vec<&'static str> {
        vec![
            "merge files are written with the repo's SerializeMsgPack::save and trained tables are read back with SerializeMsgPack::load (the file format is not the subject)",
            "trained tables are used only if they are well-formed (C19 judges the trainer); a malformed one makes the run inconclusive, it is never judged",
            "the number of prefix / suffix ids is taken from the config; which ids they are is not judged here",
            "train_bpe breaks ties among equally frequent pairs in hash map order, so a replay of a trained case may see a different (equally valid) table; the table is part of every violation detail",
        ]
    }

    fn generate(rng: &mut Rng, _tier: Tier, _lane: &str) -> Case {
        gen_case(rng, 0.05, 0.2)
    }

    fn check(c: &Case, obs: &mut Obs) {
        let Some(env) = setup(&c.table, "c03", obs) else {
            return;
        };
        obs.tag(kind_tag(&env.kind));
        obs.max("table_entries", env.entries.len() as u64);
        let mut tot = RefOut::default();
        let (mut evaluated, mut single_token_words) = (0u64, 0u64);
        for cfg in &c.cfgs {
            let table = effective_table(&env.entries, cfg);
            obs.tag_if(table.len() < env.entries.len(), "cfg/table-truncated");
            obs.tag_if(table.is_empty() && !env.entries.is_empty(), "cfg/table-truncated-to-nothing");
            let Some(tok) = build_tokenizer(&env, cfg, obs) else {
                continue;
            };
            for s in &c.strings {
                let r = ref_bpe(s, &table);
                let ids = match guarded(obs, "tokenize", || tok.tokenize(s, true)) {
                    Some(Ok(t)) => t.token_ids,
                    Some(Err(e)) => {
                        obs.fail("tokenize/err", format!("tokenize({s:?}, true) failed: {e}"));
                        continue;
                    }
                    None => continue,
                };
                evaluated += 1;
                let (np, ns) = (cfg.prefix.len(), cfg.suffix.len());
                if ids.len() < np + ns {
                    obs.fail(
                        "tokenize/shorter-than-prefix-and-suffix",
                        format!("{} ids for {np} prefix and {ns} suffix tokens on {s:?}", ids.len()),
                    );
                    continue;
                }
                let body = &ids[np..ids.len() - ns];
                if body != r.ids.as_slice() {
                    // classify for a stable signature
                    let n_tab = table.len() as u32;
                    let by_id: BTreeMap<u32, &Vec<u8>> = table.iter().map(|(b, i)| (*i, b)).collect();
                    let mut valid = true;
                    let got: Vec<Vec<u8>> = body
                        .iter()
                        .map(|&id| {
                            if id < 256 {
                                vec![id as u8]
                            } else if id - 256 < n_tab {
                                by_id.get(&(id - 256)).map(|b| (*b).clone()).unwrap_or_default()
                            } else {
                                valid = false;
                                format!("<id {id}>").into_bytes()
                            }
                        })
                        .collect();
                    let expected_bytes: Vec<u8> = ref_words(s).concat().into_bytes();
                    let sig = if !valid {
                        "tokenize/id-outside-table"
                    } else if got.concat() != expected_bytes {
                        "tokenize/ids-do-not-spell-the-words"
                    } else if body.len() > r.ids.len() {
                        "tokenize/not-canonical/merges-missing"
                    } else if body.len() < r.ids.len() {
                        "tokenize/not-canonical/extra-merges"
                    } else {
                        "tokenize/not-canonical/different-merges"
                    };
                    obs.fail(
                        sig,
                        format!(
                            "string {s:?} table {} (effective entries {}): repo ids {body:?} = {} but reference ids {:?} = {}",
                            show_table(&env.entries),
                            table.len(),
                            show_toks(&got),
                            r.ids,
                            show_toks(&r.toks)
                        ),
                    );
                }
                if r.words == 1 && r.ids.len() == 1 && r.ids[0] >= 256 {
                    single_token_words += 1;
                }
                obs.tag_if(r.toks.iter().any(|t| t.len() > 1 && std::str::from_utf8(t).is_err()), "token/splits-a-utf8-char");
                obs.tag_if(
                    r.toks.iter().any(|t| {
                        t.len() > 1 && std::str::from_utf8(t).map(|x| x.starts_with(char::is_whitespace)).unwrap_or(t[0] == b' ')
                    }),
                    "token/merged-with-leading-whitespace",
                );
                obs.tag_if(s.ends_with(char::is_whitespace), "string/trailing-whitespace");
                obs.tag_if(r.words == 0, "string/no-word");
                tot.words += r.words;
                tot.merges += r.merges;
                tot.deep_words += r.deep_words;
                tot.ties += r.ties;
                tot.overlaps += r.overlaps;
                tot.id_beats_position += r.id_beats_position;
                tot.max_merges_in_word = tot.max_merges_in_word.max(r.max_merges_in_word);
            }
        }
        obs.nontrivial_if(tot.deep_words >= 1);
        obs.tag_if(tot.ties > 0, "merge/tie-on-lowest-id");
        obs.tag_if(tot.overlaps > 0, "merge/competing-overlapping-pairs");
        obs.tag_if(tot.id_beats_position > 0, "merge/lower-id-right-of-another-pair");
        obs.tag_if(tot.max_merges_in_word >= 4, "merge/4+-in-one-word");
        obs.tag_if(single_token_words > 0, "word/becomes-single-merged-token");
        obs.tag_if(env.kind == "trained" && single_token_words > 0, "trained/word-becomes-single-token");
        obs.add("tokenizations", evaluated);
        obs.add("words", tot.words as u64);
        obs.add("reference_merges", tot.merges as u64);
        obs.add("deep_words", tot.deep_words as u64);
        obs.max("max_merges_in_word", tot.max_merges_in_word as u64);
        obs.note(json!({
            "kind": env.kind,
            "table": show_table(&env.entries),
            "tokenizations": evaluated,
            "words": tot.words,
            "reference_merges": tot.merges,
            "deep_words": tot.deep_words,
            "ties": tot.ties,
            "max_merges_in_word": tot.max_merges_in_word,
        }));
    }
}
