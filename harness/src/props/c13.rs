//! C13 — correction metrics are total, bounded, calibrated and aggregate correctly.
//!
//! The oracle never looks at the generator class of a case: everything it judges is derived from
//! the materialised strings (its own cleaning, its own word LCS, its own whitespace-operation
//! reference, its own Levenshtein), so a replay of an edited case is judged consistently.
use crate::core::*;
use crate::gen::{self, chars_of, has_mixed_cluster, is_ws, len_geo, Flavor};
use rand::seq::IndexedRandom;
use rand::Rng as _;
use serde::{Deserialize, Serialize};
use serde_json::json;
use std::collections::BTreeSet;
use text_utils::metrics::{
    accuracy, binary_f1, mean_edit_distance, mean_normalized_edit_distance, spelling_correction_f1,
    whitespace_correction_f1, F1Info, WhitespaceCorrectionMode,
};
use text_utils::whitespace::Operation;
use unicode_normalization::UnicodeNormalization;

pub struct C13;

#[derive(Serialize, Deserialize, Clone, Debug)]
pub struct Case {
    /// generator class (evidence only, the oracle does not branch on it)
    pub class: String,
    pub input: Vec<String>,
    pub pred: Vec<String>,
    pub target: Vec<String>,
    pub beta: f64,
    pub seq_avg: bool,
    /// 0 = Insertions, 1 = Deletions, 2 = InsertionsAndDeletions
    pub mode: u8,
    pub graphemes: bool,
    pub bools_p: Vec<bool>,
    pub bools_t: Vec<bool>,
    /// which list is made one element shorter / longer for the length-mismatch probe
    pub mismatch: u8,
}

const EPS: f64 = 1e-9;
const BETAS: [f64; 3] = [0.5, 1.0, 2.0];
/// multi code point grapheme clusters that NFKC leaves alone
const STABLE_CLUSTERS: &[&str] = &["x\u{301}", "👍🏽", "🇩🇪"];
/// whitespace runs used to "dirty" a clean text (the metrics clean their inputs themselves)
const WS_DIRT: &[&str] = &["  ", "\t", "\u{a0}", "\n", " \t ", "\u{2003}", "\r\n", "   "];
/// non-whitespace characters whose NFKC form contains a space, a ligature and a wide letter:
/// only for the robustness class
const NFKC_UNSTABLE: &[&str] = &["\u{a8}", "\u{b4}", "\u{2017}", "ﬁ", "Ａ", "\u{fe49}", "²", "ｶ\u{ff9e}", "\u{600}", "\u{110bd}"];

// ---------------------------------------------------------------------------------------
// reference model

/// whitespace normal form: words joined by single U+0020 (equals text::clean(s, true) whenever no
/// grapheme cluster of s mixes whitespace and non-whitespace code points)
fn my_clean(s: &str) -> String {
    let mut out = String::new();
    for w in s.split(char::is_whitespace) {
        if w.is_empty() {
            continue;
        }
        if !out.is_empty() {
            out.push(' ');
        }
        out.push_str(w);
    }
    out
}

fn words_of(clean: &str) -> Vec<&str> {
    clean.split(' ').filter(|w| !w.is_empty()).collect()
}

/// the value oracle applies to a string only if cleaning and NFKC cannot change what the oracle
/// sees: no cluster mixes whitespace with something else (before and after cleaning) and the
/// cleaned string is a fixed point of NFKC, as a whole and cluster by cluster
fn is_stable(raw: &str, clean: &str) -> bool {
    if has_mixed_cluster(raw) || has_mixed_cluster(clean) {
        return false;
    }
    if clean.nfkc().collect::<String>() != clean {
        return false;
    }
    chars_of(clean, true)
        .iter()
        .all(|g| g.nfkc().collect::<String>() == **g)
}

/// length of a longest common subsequence of two word lists (single rolling row)
fn lcs_len(a: &[&str], b: &[&str]) -> usize {
    let mut row = vec![0usize; b.len() + 1];
    for x in a {
        let mut diag = 0usize;
        for (j, y) in b.iter().enumerate() {
            let up = row[j + 1];
            row[j + 1] = if x == y { diag + 1 } else { up.max(row[j]) };
            diag = up;
        }
    }
    row[b.len()]
}

/// plain Levenshtein distance (insert, delete, replace; no transposition), two rows
fn levenshtein(a: &[&str], b: &[&str]) -> usize {
    let mut prev: Vec<usize> = (0..=b.len()).collect();
    for (i, x) in a.iter().enumerate() {
        let mut cur = Vec::with_capacity(b.len() + 1);
        cur.push(i + 1);
        for (j, y) in b.iter().enumerate() {
            let sub = prev[j] + usize::from(x != y);
            cur.push(sub.min(prev[j + 1] + 1).min(cur[j] + 1));
        }
        prev = cur;
    }
    prev[b.len()]
}

fn fbeta(tp: usize, fp: usize, fn_: usize, beta: f64) -> [f64; 3] {
    let p = tp as f64 / (tp + fp).max(1) as f64;
    let r = tp as f64 / (tp + fn_).max(1) as f64;
    [fbeta_of(p, r, beta), p, r]
}

fn fbeta_of(p: f64, r: f64, beta: f64) -> f64 {
    if p + r > 0.0 {
        let b2 = beta * beta;
        (1.0 + b2) * p * r / (b2 * p + r)
    } else {
        0.0
    }
}

/// per-sequence counts -> (micro, sequence averaged) expectation; `empty[i]` = the (1,1,1) convention
fn aggregate(counts: &[(usize, usize, usize)], empty: &[bool], beta: f64, seq_avg: bool) -> [f64; 3] {
    if seq_avg {
        let mut s = [0.0f64; 3];
        for (c, e) in counts.iter().zip(empty) {
            let v = if *e { [1.0, 1.0, 1.0] } else { fbeta(c.0, c.1, c.2, beta) };
            for k in 0..3 {
                s[k] += v[k];
            }
        }
        let n = counts.len().max(1) as f64;
        [s[0] / n, s[1] / n, s[2] / n]
    } else {
        let t = counts
            .iter()
            .fold((0, 0, 0), |a, c| (a.0 + c.0, a.1 + c.1, a.2 + c.2));
        fbeta(t.0, t.1, t.2, beta)
    }
}

fn close3(got: (f64, f64, f64), want: [f64; 3]) -> bool {
    (got.0 - want[0]).abs() <= EPS && (got.1 - want[1]).abs() <= EPS && (got.2 - want[2]).abs() <= EPS
}

/// a cleaned text as (non-whitespace characters, "a space precedes character k")
fn layout(clean: &str, graphemes: bool) -> (Vec<&str>, Vec<bool>) {
    let mut chars = vec![];
    let mut gap = vec![];
    let mut pending = false;
    for c in chars_of(clean, graphemes) {
        if is_ws(c) {
            pending = true;
        } else {
            chars.push(c);
            gap.push(pending);
            pending = false;
        }
    }
    (chars, gap)
}

const INS: u8 = 0;
const DEL: u8 = 1;

/// whitespace operations that turn spacing `from` into spacing `to` of the same character
/// sequence, as (position in the `from` text, Insert | Delete): an Insert sits on the character
/// in front of which the space is missing, a Delete on the superfluous space
fn ws_ops(from: &[bool], to: &[bool], mode: u8) -> BTreeSet<(usize, u8)> {
    let mut set = BTreeSet::new();
    let mut spaces_before = 0usize;
    for k in 0..from.len() {
        // position of character k in `from` = k + number of spaces up to and including its own gap
        match (from[k], to[k]) {
            (false, true) => {
                if mode != 1 {
                    set.insert((k + spaces_before, INS));
                }
            }
            (true, false) => {
                if mode != 0 {
                    set.insert((k + spaces_before, DEL));
                }
            }
            _ => {}
        }
        if from[k] {
            spaces_before += 1;
        }
    }
    set
}

fn mode_of(m: u8) -> WhitespaceCorrectionMode {
    match m {
        0 => WhitespaceCorrectionMode::Insertions,
        1 => WhitespaceCorrectionMode::Deletions,
        _ => WhitespaceCorrectionMode::InsertionsAndDeletions,
    }
}

fn in_unit(v: f64) -> bool {
    v.is_finite() && (0.0..=1.0).contains(&v)
}

// ---------------------------------------------------------------------------------------
// generators

fn alphabet(rng: &mut Rng) -> Vec<&'static str> {
    let mut a = vec!["a", "b"];
    if rng.random_bool(0.5) {
        a.push("c");
    }
    if rng.random_bool(0.4) {
        a.push("ä");
    }
    if rng.random_bool(0.25) {
        a.push("é");
    }
    if rng.random_bool(0.15) {
        a.push(STABLE_CLUSTERS.choose(rng).copied().unwrap_or("a"));
    }
    a
}

thread_local! {
    /// `large` lane: size multipliers (sequences per case, words per sequence, characters per
    /// word); one of the three carries the multiplier of the case, the others stay 1
    static DIMS: std::cell::Cell<(usize, usize, usize)> = const { std::cell::Cell::new((1, 1, 1)) };
}
fn dims() -> (usize, usize, usize) {
    DIMS.with(|d| d.get())
}

fn gen_word(rng: &mut Rng, alpha: &[&str], max_len: usize) -> String {
    let n = 1 + gen::with_scale(dims().2, || len_geo(rng, 1.2, max_len.saturating_sub(1)));
    (0..n).map(|_| *alpha.choose(rng).unwrap_or(&"a")).collect()
}

fn misspell(rng: &mut Rng, alpha: &[&str], w: &str) -> String {
    let mut cs: Vec<String> = chars_of(w, true).iter().map(|s| s.to_string()).collect();
    let n = cs.len();
    match rng.random_range(0..4) {
        0 if n >= 1 => {
            let i = rng.random_range(0..n);
            cs[i] = alpha.choose(rng).unwrap_or(&"a").to_string();
        }
        1 if n >= 2 => {
            let i = rng.random_range(0..n);
            cs.remove(i);
        }
        2 if n >= 2 => {
            let i = rng.random_range(0..n - 1);
            cs.swap(i, i + 1);
        }
        _ => {
            let i = rng.random_range(0..=n);
            cs.insert(i, alpha.choose(rng).unwrap_or(&"a").to_string());
        }
    }
    cs.concat()
}

/// word level noise: misspell, delete, insert, merge with next, split, duplicate
fn perturb(rng: &mut Rng, alpha: &[&str], words: &[String], rate: f64) -> Vec<String> {
    let mut out = vec![];
    let mut i = 0;
    while i < words.len() {
        let w = &words[i];
        if !rng.random_bool(rate) {
            out.push(w.clone());
            i += 1;
            continue;
        }
        match rng.random_range(0..6) {
            0 => out.push(misspell(rng, alpha, w)),
            1 => {}
            2 => {
                out.push(gen_word(rng, alpha, 3));
                out.push(w.clone());
            }
            3 => {
                if i + 1 < words.len() {
                    out.push(format!("{w}{}", words[i + 1]));
                    i += 1;
                } else {
                    out.push(w.clone());
                    out.push(gen_word(rng, alpha, 3));
                }
            }
            4 => {
                let cs = chars_of(w, true);
                if cs.len() >= 2 {
                    let k = rng.random_range(1..cs.len());
                    out.push(cs[..k].concat());
                    out.push(cs[k..].concat());
                } else {
                    out.push(misspell(rng, alpha, w));
                }
            }
            _ => {
                out.push(w.clone());
                out.push(w.clone());
            }
        }
        i += 1;
    }
    out
}

/// join words; in 20% of the calls with messy whitespace (runs, tabs, NBSP, leading / trailing)
fn join_dirty(rng: &mut Rng, words: &[String]) -> String {
    if !rng.random_bool(0.2) {
        return words.join(" ");
    }
    let mut s = String::new();
    if rng.random_bool(0.4) {
        s.push_str(WS_DIRT.choose(rng).copied().unwrap_or(" "));
    }
    for (i, w) in words.iter().enumerate() {
        if i > 0 {
            s.push_str(if rng.random_bool(0.5) {
                WS_DIRT.choose(rng).copied().unwrap_or(" ")
            } else {
                " "
            });
        }
        s.push_str(w);
    }
    if rng.random_bool(0.4) {
        s.push_str(WS_DIRT.choose(rng).copied().unwrap_or(" "));
    }
    s
}

fn n_sequences(rng: &mut Rng) -> usize {
    if rng.random_range(0..100) < 6 {
        0
    } else {
        1 + gen::with_scale(dims().0, || len_geo(rng, 2.0, 5))
    }
}

fn gen_spelling(rng: &mut Rng, calibrated: bool) -> (Vec<String>, Vec<String>, Vec<String>, &'static str) {
    let alpha = alphabet(rng);
    let n = n_sequences(rng);
    // calibration sub-class: 0 all pred == target, 1 all pred == input, 2 mixed per sequence
    let sub = rng.random_range(0..100);
    let class = if !calibrated {
        "spell-general"
    } else if sub < 35 {
        "spell-pred-eq-target"
    } else if sub < 60 {
        "spell-pred-eq-input"
    } else {
        "spell-mixed"
    };
    let (mut input, mut pred, mut target) = (vec![], vec![], vec![]);
    for _ in 0..n {
        let nt = gen::with_scale(dims().1, || len_geo(rng, 3.0, 7));
        let tw: Vec<String> = (0..nt).map(|_| gen_word(rng, &alpha, 4)).collect();
        let iw: Vec<String> = match rng.random_range(0..100) {
            0..=54 => perturb(rng, &alpha, &tw, 0.35),
            55..=69 => tw.clone(),
            70..=77 => vec![],
            78..=84 => perturb(rng, &alpha, &tw, 1.0),
            _ => perturb(rng, &alpha, &tw, 0.15),
        };
        let pw: Vec<String> = if calibrated {
            let take_target = match class {
                "spell-pred-eq-target" => true,
                "spell-pred-eq-input" => false,
                _ => rng.random_bool(0.5),
            };
            if take_target {
                tw.clone()
            } else {
                iw.clone()
            }
        } else {
            match rng.random_range(0..100) {
                0..=29 => perturb(rng, &alpha, &iw, 0.3),
                30..=54 => perturb(rng, &alpha, &tw, 0.3),
                55..=64 => vec![],
                65..=74 => tw.clone(),
                75..=84 => iw.clone(),
                _ => {
                    let k = gen::with_scale(dims().1, || len_geo(rng, 3.0, 7));
                    (0..k).map(|_| gen_word(rng, &alpha, 4)).collect()
                }
            }
        };
        input.push(join_dirty(rng, &iw));
        pred.push(join_dirty(rng, &pw));
        target.push(join_dirty(rng, &tw));
    }
    (input, pred, target, class)
}

fn spacing(rng: &mut Rng, m: usize) -> Vec<bool> {
    let p = match rng.random_range(0..10) {
        0 => 0.0,
        1 => 1.0,
        2..=5 => 0.3,
        _ => 0.6,
    };
    (0..m).map(|k| k > 0 && rng.random_bool(p)).collect()
}

fn spaced(chars: &[&str], gap: &[bool]) -> String {
    let mut s = String::new();
    for (c, g) in chars.iter().zip(gap) {
        if *g {
            s.push(' ');
        }
        s.push_str(c);
    }
    s
}

fn dirty_text(rng: &mut Rng, s: String) -> String {
    if !rng.random_bool(0.15) {
        return s;
    }
    let ws: Vec<String> = s.split(' ').map(|w| w.to_string()).collect();
    let mut out = String::new();
    if rng.random_bool(0.5) {
        out.push_str(WS_DIRT.choose(rng).copied().unwrap_or(" "));
    }
    for (i, w) in ws.iter().enumerate() {
        if i > 0 {
            out.push_str(WS_DIRT.choose(rng).copied().unwrap_or(" "));
        }
        out.push_str(w);
    }
    if rng.random_bool(0.5) {
        out.push_str(WS_DIRT.choose(rng).copied().unwrap_or(" "));
    }
    out
}

/// three independent re-spacings of one character sequence
fn respace_triple(rng: &mut Rng, chars: &[&str]) -> (String, String, String) {
    let m = chars.len();
    let gi = spacing(rng, m);
    let gt = spacing(rng, m);
    let gp: Vec<bool> = match rng.random_range(0..100) {
        0..=24 => gt.clone(),
        25..=39 => gi.clone(),
        40..=69 => {
            // the target with a few wrong decisions
            let mut g = gt.clone();
            for _ in 0..rng.random_range(1..=3) {
                if m > 1 {
                    let k = rng.random_range(1..m);
                    g[k] = !g[k];
                }
            }
            g
        }
        _ => spacing(rng, m),
    };
    (spaced(chars, &gi), spaced(chars, &gp), spaced(chars, &gt))
}

fn gen_whitespace(rng: &mut Rng) -> (Vec<String>, Vec<String>, Vec<String>, &'static str) {
    let alpha = alphabet(rng);
    let n = n_sequences(rng);
    let (mut input, mut pred, mut target) = (vec![], vec![], vec![]);
    for _ in 0..n {
        let m = gen::with_scale(dims().1.max(dims().2), || len_geo(rng, 5.0, 12));
        let chars: Vec<&str> = (0..m).map(|_| *alpha.choose(rng).unwrap_or(&"a")).collect();
        let (i, p, t) = respace_triple(rng, &chars);
        input.push(dirty_text(rng, i));
        pred.push(dirty_text(rng, p));
        target.push(dirty_text(rng, t));
    }
    let mut class = "ws-respaced";
    if n > 0 && rng.random_range(0..100) < 5 {
        // a prediction that changed a non-whitespace character: Err is legitimate, a panic is not
        let k = rng.random_range(0..n);
        let w = pred[k].clone();
        pred[k] = misspell(rng, &alpha, &w);
        class = "ws-content-changed";
    }
    (input, pred, target, class)
}

const TOT_TOKENS: &[&str] = &["a", "b", "ab", "ba", " ", "  "];
const TOT_EXTRA: &[&str] = &["\t", "ä", "a\u{a0}b", " a ", "\n", "a b a b", "b\ta"];

fn tot_string(rng: &mut Rng) -> String {
    if rng.random_range(0..100) < 8 {
        return TOT_EXTRA.choose(rng).copied().unwrap_or("").to_string();
    }
    let k = rng.random_range(0..=4 * dims().1.max(dims().2));
    (0..k).map(|_| *TOT_TOKENS.choose(rng).unwrap_or(&"a")).collect()
}

/// tiny strings over {a,b,ab,ba,␠,␠␠}*: word-less sides, whitespace-only strings, empty lists
fn gen_totality(rng: &mut Rng) -> (Vec<String>, Vec<String>, Vec<String>, &'static str) {
    let n = if rng.random_range(0..100) < 8 { 0 } else { rng.random_range(1..=4 * dims().0) };
    let relation = rng.random_range(0..100);
    let (mut input, mut pred, mut target) = (vec![], vec![], vec![]);
    for _ in 0..n {
        let i = tot_string(rng);
        let t = tot_string(rng);
        let p = match relation {
            0..=39 => tot_string(rng),
            40..=64 => t.clone(),
            65..=84 => i.clone(),
            _ => match rng.random_range(0..3) {
                0 => t.clone(),
                1 => i.clone(),
                _ => tot_string(rng),
            },
        };
        input.push(i);
        pred.push(p);
        target.push(t);
    }
    (input, pred, target, "totality-tiny")
}

fn wild_string(rng: &mut Rng) -> String {
    let fl = match rng.random_range(0..10) {
        0..=4 => Flavor::Wild,
        5..=7 => Flavor::Texty,
        _ => Flavor::Tiny,
    };
    let mut s = gen::with_scale(dims().1.max(dims().2).min(50), || gen::ustring(rng, fl, 24));
    // sprinkle characters whose NFKC form contains spaces / several letters
    while rng.random_bool(0.25) {
        let cs = chars_of(&s, false);
        let k = rng.random_range(0..=cs.len());
        let extra = NFKC_UNSTABLE.choose(rng).copied().unwrap_or("");
        s = format!("{}{}{}", cs[..k].concat(), extra, cs[k..].concat());
    }
    s
}

/// arbitrary Unicode: independent strings, or re-spacings / word noise on one wild base text
fn gen_robust(rng: &mut Rng) -> (Vec<String>, Vec<String>, Vec<String>, &'static str) {
    let n = if rng.random_range(0..100) < 5 { 0 } else { 1 + gen::with_scale(dims().0, || len_geo(rng, 1.5, 4)) };
    let relation = rng.random_range(0..100);
    let class = match relation {
        0..=34 => "robust-independent",
        35..=64 => "robust-respaced",
        _ => "robust-word-noise",
    };
    let (mut input, mut pred, mut target) = (vec![], vec![], vec![]);
    for _ in 0..n {
        let base = wild_string(rng);
        match class {
            "robust-independent" => {
                input.push(base);
                pred.push(if rng.random_bool(0.2) { String::new() } else { wild_string(rng) });
                target.push(if rng.random_bool(0.1) { String::new() } else { wild_string(rng) });
            }
            "robust-respaced" => {
                let gr = rng.random_bool(0.5);
                let chars: Vec<&str> = chars_of(&base, gr).into_iter().filter(|c| !is_ws(c)).collect();
                let (i, p, t) = respace_triple(rng, &chars);
                input.push(i);
                pred.push(p);
                target.push(t);
            }
            _ => {
                let tw: Vec<String> = base.split_whitespace().map(|w| w.to_string()).collect();
                let alpha = ["a", "ß", "\u{301}", "語", "\u{a8}", "😀"];
                let iw = perturb(rng, &alpha, &tw, 0.4);
                let pw = match rng.random_range(0..4) {
                    0 => tw.clone(),
                    1 => iw.clone(),
                    2 => vec![],
                    _ => perturb(rng, &alpha, &iw, 0.4),
                };
                input.push(join_dirty(rng, &iw));
                pred.push(join_dirty(rng, &pw));
                target.push(join_dirty(rng, &tw));
            }
        }
    }
    (input, pred, target, class)
}

/// `large` lane: 1-2 sequences in which exactly one of input / prediction / target has
/// 66 000 - 70 000 characters and the other two are empty or a few words (the matrices of the
/// metrics stay small, the distances exceed 2^16)
fn gen_long_vs_short(rng: &mut Rng) -> (Vec<String>, Vec<String>, Vec<String>, &'static str) {
    DIMS.with(|d| d.set((1, 1, 1)));
    // ascii only: the repo's character lookup is linear in the number of runs of equal byte
    // width, which makes the spelling metric quadratic on long mixed-width strings
    let _ = alphabet(rng);
    let alpha = vec!["a", "b", "c"];
    let n = rng.random_range(1..=2);
    let (mut input, mut pred, mut target) = (vec![], vec![], vec![]);
    for _ in 0..n {
        let total = rng.random_range(66_000..=70_000);
        let mut long = String::new();
        let mut chars = 0usize;
        while chars < total {
            // few very long words: the repo's spelling metric is quadratic in the number of words
            let wl = rng.random_range(2_000..=9_000);
            let w: String = (0..wl).map(|_| *alpha.choose(rng).unwrap_or(&"a")).collect();
            chars += chars_of(&w, true).len() + 1;
            if !long.is_empty() {
                long.push(' ');
            }
            long.push_str(&w);
        }
        let short = |rng: &mut Rng| -> String {
            let k = rng.random_range(0..=3);
            (0..k).map(|_| gen_word(rng, &alpha, 4)).collect::<Vec<_>>().join(" ")
        };
        let mut v = [short(rng), short(rng), short(rng)];
        v[rng.random_range(0..3)] = long;
        let [i, p, t] = v;
        input.push(i);
        pred.push(p);
        target.push(t);
    }
    (input, pred, target, "long-vs-short")
}

/// list with one element removed (or, if empty, one added): same content otherwise
fn off_by_one(v: &[String], grow: bool) -> Vec<String> {
    let mut w = v.to_vec();
    if grow || w.is_empty() {
        w.push("a b".to_string());
    } else {
        w.pop();
    }
    w
}

impl Prop for C13 {
    type Case = Case;
    const ID: &'static str = "C13";

    fn lanes(tier: Tier) -> Vec<Lane> {
        vec![
            Lane::new("main", tier.pick(240_000, 4_500_000))
                .cap(tier.pick(180, 1200))
                .floor(tier.pick(40_000, 800_000)),
            Lane::new("robustness", tier.pick(80_000, 1_500_000))
                .cap(tier.pick(150, 900))
                .floor(tier.pick(12_000, 250_000)),
            // the generators of both lanes with one dimension (sequences per case, words per
            // sequence or characters per word) 10 / 50 / 250 times bigger, and sequences beyond
            // 2^16 characters against short ones
            Lane::new("large", tier.pick(1_600, 32_000))
                .cap(tier.pick(150, 1200))
                .floor(tier.pick(100, 2_000)),
        ]
    }

    fn rule() -> &'static str {
        "Lane main (NFKC-stable alphabet a b c ä é + one stable multi-code-point cluster, messy \
         whitespace in 15-20% of the strings because the metrics clean their inputs), 0-6 sequences: \
         30% three independent re-spacings of one character sequence (5% of them with a changed \
         character in a prediction: Err allowed, panic not); 25% spelling calibration triples (input = \
         target with word noise: misspell / delete / insert / merge / split / duplicate; prediction = \
         target for all, = input for all, or mixed per sequence); 20% spelling triples with an \
         arbitrary noisy / empty / random prediction; 25% tiny strings over {a,b,ab,ba,space,2 \
         spaces}* (word-less sides, whitespace-only strings, empty lists) with prediction independent \
         / = target / = input. Lane robustness: arbitrary Unicode (gen::ustring pools + characters \
         whose NFKC form contains spaces) as independent strings, re-spacings or word noise. x beta in \
         {0.5,1,2} x micro / sequence averaged x 3 whitespace modes x use_graphemes. Every case calls \
         spelling_correction_f1, whitespace_correction_f1, mean_edit_distance, \
         mean_normalized_edit_distance, accuracy (strings and bools), binary_f1 and each list \
         function once more with one list one element off (must be Err). Judged for every case: no \
         panic; spelling F1 is Ok; Ok results finite and in [0,1]; with micro averaging the returned F \
         equals F-beta of the returned precision and recall. Judged only if every string is a fixed \
         point of NFKC and has no cluster mixing whitespace with other code points (derived from the \
         strings, not from the lane): (1) spelling calibration when every sequence has cleaned \
         prediction == cleaned target or == cleaned input: per sequence the counts are (m,0,0) resp. \
         (0,0,m) with m = number of target words outside a longest common word subsequence with the \
         input (own LCS; its length is unique) - exactly the statement's 'no false positives or \
         negatives' (so TP = all misspelled words) and 'zero true positives' (so FN = all of them; an \
         unchanged prediction changes no word, hence no FP); the (1,1,1) convention applies to a \
         sequence where nothing is misspelled and no input word is outside the LCS with the prediction, \
         every other all-zero sequence has F-beta(0,0,0)=(0,0,0) by the max(.,1) denominators; micro = \
         F-beta of the sums, sequence average = mean; (2) whitespace F1 on re-spacings: own operation \
         sets from the gap vectors, TP/FP/FN by set algebra per mode, micro / sequence average with \
         (1,1,1) for sequences whose two sets are empty, |info lists| = (TP,FP,FN), to 1e-9; Err there \
         is a violation, Err with different non-whitespace content is not; (3) mean (normalised) edit \
         distance = mean of own Levenshtein on the cleaned strings (/ max length, 0 for two empty); \
         accuracy and binary_f1 by their formulas; empty lists give 0. distinct = hash of the case; \
         non-trivial = by the oracle's own counts at least one of TP, FP, FN is non-zero in >= 2 \
         sequences of the case (whitespace counts in the case's mode, or misspelled target words for \
         the spelling metric)."
    }

    fn assumptions() -> Vec<&'static str> {
        vec![
            "character segmentation (code points / extended grapheme clusters) and NFKC come from unicode-segmentation / unicode-normalization in the oracle as in the repo; the oracle only uses NFKC to decide that a string is a fixed point and then never normalises",
            "F-beta of all-zero counts is 0 (max(.,1) denominators), for micro averaging and for a sequence that is not covered by the (1,1,1) convention; the sequence average of an empty list is only range-checked",
            "spelling F1 with an arbitrary prediction (not equal to target or input) is judged on totality, range and micro F/P/R consistency only: the statement does not define the word alignment",
            "the positions inside WhitespaceCorrectionInfo are not judged, only the cardinalities",
            "Err (instead of a value) for lists of different length is taken from DESIGN.md section 6",
        ]
    }

    fn generate(rng: &mut Rng, _tier: Tier, lane: &str) -> Case {
        // `large` lane: the multiplier of the case goes to exactly one dimension
        let k = gen::scale();
        gen::set_scale(1);
        DIMS.with(|d| {
            d.set(match (k, rng.random_range(0..3)) {
                (1, _) => (1, 1, 1),
                (_, 0) => (k, 1, 1),
                // (strings beyond ~3000 characters cost the quadratic metrics CPU-minutes)
                (_, 1) => (1, k.min(100), 1),
                _ => (1, 1, k.min(100)),
            })
        });
        let (input, pred, target, class) = if k == 250 && rng.random_bool(0.3) {
            gen_long_vs_short(rng)
        } else if lane == "robustness" || (k > 1 && rng.random_bool(0.2)) {
            gen_robust(rng)
        } else {
            match rng.random_range(0..100) {
                0..=29 => gen_whitespace(rng),
                30..=54 => gen_spelling(rng, true),
                55..=74 => gen_spelling(rng, false),
                _ => gen_totality(rng),
            }
        };
        let nb = if rng.random_range(0..10) == 0 { 0 } else { rng.random_range(1..=12 * dims().0) };
        let pt = [0.1, 0.5, 0.9][rng.random_range(0..3)];
        let bools_t: Vec<bool> = (0..nb).map(|_| rng.random_bool(pt)).collect();
        let mut bools_p: Vec<bool> = bools_t
            .iter()
            .map(|t| if rng.random_bool(0.6) { *t } else { rng.random_bool(0.5) })
            .collect();
        if rng.random_range(0..10) == 0 {
            if bools_p.is_empty() || rng.random_bool(0.5) {
                bools_p.push(true);
            } else {
                bools_p.pop();
            }
        }
        Case {
            class: class.to_string(),
            input,
            pred,
            target,
            beta: BETAS[rng.random_range(0..3)],
            seq_avg: rng.random_bool(0.5),
            mode: rng.random_range(0..3),
            graphemes: rng.random_bool(0.5),
            bools_p,
            bools_t,
            mismatch: rng.random_range(0..6),
        }
    }

    fn check(c: &Case, obs: &mut Obs) {
        // history round (core::history_round): the same inputs with `graphemes` flipped in between
        if history_round(
            c,
            obs,
            |c| {
                let mut v = c.clone();
                v.graphemes = !v.graphemes;
                v
            },
            Self::check,
        ) {
            return;
        }
        let n = c.input.len();
        let gr = c.graphemes;
        let (beta, seq_avg) = (c.beta, c.seq_avg);
        let mode = c.mode.min(2);
        let cfg = format!(
            "beta={beta} seq_avg={seq_avg} mode={} graphemes={gr} input={:?} pred={:?} target={:?}",
            mode, c.input, c.pred, c.target
        );
        let lists_ok = c.pred.len() == n && c.target.len() == n;

        // ---- binary_f1 / accuracy on the boolean vectors (independent of the text lists)
        match guarded(obs, "binary_f1", || binary_f1(&c.bools_p, &c.bools_t, beta)) {
            Some(Ok(v)) => {
                if c.bools_p.len() != c.bools_t.len() {
                    obs.fail("binary_f1/length-mismatch-accepted", format!("{:?} {:?} -> {v:?}", c.bools_p, c.bools_t));
                } else {
                    let (mut tp, mut fp, mut fn_) = (0, 0, 0);
                    for k in 0..c.bools_p.len() {
                        if c.bools_p[k] && c.bools_t[k] {
                            tp += 1;
                        } else if c.bools_p[k] {
                            fp += 1;
                        } else if c.bools_t[k] {
                            fn_ += 1;
                        }
                    }
                    let want = fbeta(tp, fp, fn_, beta);
                    obs.check(close3(v, want), "binary_f1/value", || {
                        format!("beta={beta} pred={:?} target={:?}: got {v:?}, expected (f,p,r)={want:?} from tp={tp} fp={fp} fn={fn_}", c.bools_p, c.bools_t)
                    });
                    obs.tag_if(tp + fp + fn_ > 0, "binary_f1-nonzero-counts");
                }
            }
            Some(Err(e)) => {
                obs.check(c.bools_p.len() != c.bools_t.len(), "binary_f1/err-on-equal-lengths", || format!("{e}"));
                obs.tag("binary_f1-length-mismatch-err");
            }
            None => {}
        }
        match guarded(obs, "accuracy", || accuracy(&c.bools_p, &c.bools_t)) {
            Some(Ok(v)) => {
                if c.bools_p.len() != c.bools_t.len() {
                    obs.fail("accuracy/length-mismatch-accepted", format!("{:?} {:?} -> {v}", c.bools_p, c.bools_t));
                } else {
                    let eq = c.bools_p.iter().zip(&c.bools_t).filter(|(a, b)| a == b).count();
                    let want = eq as f64 / c.bools_p.len().max(1) as f64;
                    obs.check((v - want).abs() <= 1e-12, "accuracy/value", || {
                        format!("pred={:?} target={:?}: got {v}, expected {want}", c.bools_p, c.bools_t)
                    });
                }
            }
            Some(Err(e)) => {
                obs.check(c.bools_p.len() != c.bools_t.len(), "accuracy/err-on-equal-lengths", || format!("{e}"));
            }
            None => {}
        }

        if !lists_ok {
            // not produced by the generator; a hand-edited replay: every list function must refuse
            obs.tag("unequal-lists");
            if let Some(Ok(v)) = guarded(obs, "spelling_f1", || {
                spelling_correction_f1(&c.input, &c.pred, &c.target, beta, seq_avg, gr)
            }) {
                obs.fail("spelling_f1/length-mismatch-accepted", format!("{:?} for {cfg}", v.0));
            }
            if let Some(Ok(v)) = guarded(obs, "whitespace_f1", || {
                whitespace_correction_f1(&c.input, &c.pred, &c.target, beta, seq_avg, mode_of(mode), gr)
            }) {
                obs.fail("whitespace_f1/length-mismatch-accepted", format!("{:?} for {cfg}", v.0));
            }
            return;
        }

        // ---- the oracle's view of the texts
        let cl_in: Vec<String> = c.input.iter().map(|s| my_clean(s)).collect();
        let cl_pr: Vec<String> = c.pred.iter().map(|s| my_clean(s)).collect();
        let cl_tg: Vec<String> = c.target.iter().map(|s| my_clean(s)).collect();
        let stable = (0..n).all(|i| {
            is_stable(&c.input[i], &cl_in[i]) && is_stable(&c.pred[i], &cl_pr[i]) && is_stable(&c.target[i], &cl_tg[i])
        });
        obs.tag(if stable { "value-judged" } else { "robustness-only" });
        obs.tag_if(n == 0, "empty-lists");
        obs.tag_if(
            (0..n).any(|i| c.input[i].is_empty() || c.pred[i].is_empty() || c.target[i].is_empty()),
            "empty-string",
        );
        obs.tag_if(
            (0..n).any(|i| {
                [&c.input[i], &c.pred[i], &c.target[i]]
                    .iter()
                    .any(|s| !s.is_empty() && s.chars().all(char::is_whitespace))
            }),
            "whitespace-only-string",
        );
        obs.tag_if((0..n).any(|i| cl_in[i] != c.input[i] || cl_pr[i] != c.pred[i] || cl_tg[i] != c.target[i]), "uncleaned-strings");
        obs.tag_if((0..n).any(|i| cl_pr[i].is_empty() && !cl_tg[i].is_empty()), "empty-prediction");

        // per sequence word statistics (own LCS)
        let mut mis = vec![0usize; n]; // target words outside the LCS with the input
        let mut in_out = vec![0usize; n]; // input words outside the LCS with the target
        let mut pred_is_target = vec![false; n];
        let mut pred_is_input = vec![false; n];
        for i in 0..n {
            let (iw, pw, tw) = (words_of(&cl_in[i]), words_of(&cl_pr[i]), words_of(&cl_tg[i]));
            let l = lcs_len(&iw, &tw);
            mis[i] = tw.len() - l;
            in_out[i] = iw.len() - l;
            pred_is_target[i] = pw == tw;
            pred_is_input[i] = pw == iw;
            obs.tag_if(pw.len() < iw.len(), "prediction-has-fewer-words");
            obs.tag_if(pw.len() > iw.len(), "prediction-has-more-words");
        }
        let sp_active = mis.iter().filter(|m| **m > 0).count();
        // input classes that get their own panic signature (so that a known finding about one of
        // them can never hide a panic on ordinary input)
        let nfkc_ws = [&cl_in, &cl_pr, &cl_tg].iter().any(|l| {
            l.iter().any(|s| {
                s.chars()
                    .any(|ch| !ch.is_whitespace() && std::iter::once(ch).nfkc().any(char::is_whitespace))
            })
        });
        let wordless = (0..n).any(|i| cl_in[i].is_empty() != cl_pr[i].is_empty());
        obs.tag_if(nfkc_ws, "nfkc-introduces-whitespace");
        obs.tag_if(wordless, "one-of-input-prediction-has-no-words");
        let sp_what = if nfkc_ws {
            "spelling_f1/nfkc-introduces-whitespace"
        } else if wordless {
            "spelling_f1/one-side-no-words"
        } else {
            "spelling_f1"
        };

        // ---- spelling_correction_f1
        let mut note_sp = json!(null);
        match guarded(obs, sp_what, || {
            spelling_correction_f1(&c.input, &c.pred, &c.target, beta, seq_avg, gr)
        }) {
            Some(Ok(((f, p, r), infos))) => {
                note_sp = json!([f, p, r]);
                if std::env::var("TUVERIF_DEBUG").is_ok() {
                    eprintln!("spelling_correction_f1 -> ({f},{p},{r}) infos {infos:?} cleaned input {cl_in:?} target {cl_tg:?}");
                }
                // the statement's calibration clause read literally, for every input (also where
                // the value oracle does not apply): a prediction that IS the target string has no
                // false positives and no false negatives. Class-specific signatures, so that a
                // finding about one input class cannot hide another.
                // With FP = FN = 0 every sequence is (1,1,1) or, without any true positive, the
                // all-zero / (1,1,1) convention: micro values are all 1 or all 0, sequence averages
                // have p = r = f. (The info list is not used: it is Empty in the cases found.)
                if n > 0 && (0..n).all(|i| c.pred[i] == c.target[i]) {
                    obs.tag("spelling-pred-is-target-string");
                    let ok = if seq_avg {
                        (p - r).abs() <= EPS && (p - f).abs() <= EPS
                    } else {
                        close3((f, p, r), [1.0, 1.0, 1.0]) || close3((f, p, r), [0.0, 0.0, 0.0])
                    };
                    if !ok {
                        let mixed = (0..n).any(|i| {
                            [&cl_in[i], &cl_tg[i], &c.input[i], &c.target[i]].iter().any(|s| has_mixed_cluster(s))
                        });
                        let sig = if mixed {
                            "spelling_f1/pred-is-target-has-fp-or-fn/grapheme-cluster-mixes-whitespace"
                        } else if nfkc_ws {
                            "spelling_f1/pred-is-target-has-fp-or-fn/nfkc-introduces-whitespace"
                        } else if !stable {
                            "spelling_f1/pred-is-target-has-fp-or-fn/nfkc-unstable"
                        } else {
                            "spelling_f1/pred-is-target-has-fp-or-fn"
                        };
                        obs.fail(
                            sig,
                            format!(
                                "prediction == target (identical strings) but (f,p,r)=({f},{p},{r}) implies false positives or negatives; infos {infos:?}; cleaned input {cl_in:?} for {cfg}"
                            ),
                        );
                    }
                }
                // likewise: a prediction that IS the input string has no true positive, so every
                // sequence is all-zero or the (1,1,1) convention
                if n > 0 && (0..n).all(|i| c.pred[i] == c.input[i]) && !(0..n).all(|i| c.pred[i] == c.target[i]) {
                    obs.tag("spelling-pred-is-input-string");
                    let ok = if seq_avg {
                        (p - r).abs() <= EPS && (p - f).abs() <= EPS
                    } else {
                        close3((f, p, r), [1.0, 1.0, 1.0]) || close3((f, p, r), [0.0, 0.0, 0.0])
                    };
                    if !ok {
                        let mixed = (0..n).any(|i| {
                            [&cl_in[i], &cl_tg[i], &c.input[i], &c.target[i]].iter().any(|s| has_mixed_cluster(s))
                        });
                        let sig = if mixed {
                            "spelling_f1/pred-is-input-has-tp/grapheme-cluster-mixes-whitespace"
                        } else if nfkc_ws {
                            "spelling_f1/pred-is-input-has-tp/nfkc-introduces-whitespace"
                        } else if !stable {
                            "spelling_f1/pred-is-input-has-tp/nfkc-unstable"
                        } else {
                            "spelling_f1/pred-is-input-has-tp"
                        };
                        obs.fail(
                            sig,
                            format!("prediction == input (identical strings) but (f,p,r)=({f},{p},{r}) implies a true positive; cleaned input {cl_in:?} target {cl_tg:?} for {cfg}"),
                        );
                    }
                }
                let ranged = obs.check(in_unit(f) && in_unit(p) && in_unit(r), "spelling_f1/range", || {
                    format!("(f,p,r)=({f},{p},{r}) for {cfg}")
                });
                if ranged && !seq_avg {
                    let want = fbeta_of(p, r, beta);
                    obs.check((f - want).abs() <= EPS, "spelling_f1/micro-f-not-fbeta-of-p-r", || {
                        format!("f={f} but F-beta(p={p}, r={r})={want} for {cfg}")
                    });
                }
                let all_cal = (0..n).all(|i| pred_is_target[i] || pred_is_input[i]);
                if ranged && stable && all_cal && (n > 0 || !seq_avg) {
                    let mut counts = vec![];
                    let mut empty = vec![];
                    for i in 0..n {
                        if pred_is_target[i] {
                            counts.push((mis[i], 0, 0));
                            empty.push(mis[i] == 0 && in_out[i] == 0);
                        } else {
                            counts.push((0, 0, mis[i]));
                            empty.push(mis[i] == 0);
                        }
                    }
                    let want = aggregate(&counts, &empty, beta, seq_avg);
                    let all_t = pred_is_target.iter().all(|b| *b);
                    let all_i = pred_is_input.iter().all(|b| *b);
                    let sig = match (all_t, all_i, wordless) {
                        (true, _, false) => "spelling_f1/calibration/pred-eq-target",
                        (true, _, true) => "spelling_f1/calibration/pred-eq-target/one-side-no-words",
                        (false, true, false) => "spelling_f1/calibration/pred-eq-input",
                        (false, true, true) => "spelling_f1/calibration/pred-eq-input/one-side-no-words",
                        (false, false, false) => "spelling_f1/calibration/mixed",
                        (false, false, true) => "spelling_f1/calibration/mixed/one-side-no-words",
                    };
                    obs.check(close3((f, p, r), want), sig, || {
                        format!("got (f,p,r)=({f},{p},{r}), expected {want:?} from per-sequence (tp,fp,fn)={counts:?}, (1,1,1)-convention={empty:?} for {cfg}")
                    });
                    obs.tag_if(all_t && n > 0, "spelling-all-pred-eq-target");
                    obs.tag_if(all_i && !all_t && n > 0, "spelling-all-pred-eq-input");
                    obs.tag_if(!all_i && !all_t, "spelling-mixed-calibration");
                    obs.tag_if(
                        (0..n).any(|i| pred_is_target[i] && mis[i] == 0 && in_out[i] > 0),
                        "spelling-target-is-subsequence-of-input",
                    );
                    obs.tag_if(sp_active >= 2, "spelling-calibration-nontrivial");
                } else if stable {
                    obs.tag("spelling-arbitrary-prediction");
                }
            }
            Some(Err(e)) => obs.fail("spelling_f1/err-on-equal-lengths", format!("{e} for {cfg}")),
            None => {}
        }

        // ---- whitespace_correction_f1
        // own view: same non-whitespace characters in all three texts?
        let mut same_content = true;
        let mut ws_counts = vec![];
        let mut ws_empty = vec![];
        for i in 0..n {
            let (ci, gi) = layout(&cl_in[i], gr);
            let (cp, gp) = layout(&cl_pr[i], gr);
            let (ct, gt) = layout(&cl_tg[i], gr);
            if ci != cp || ci != ct {
                same_content = false;
                break;
            }
            let truth = ws_ops(&gi, &gt, mode);
            let predicted = ws_ops(&gi, &gp, mode);
            let tp = truth.intersection(&predicted).count();
            ws_counts.push((tp, predicted.len() - tp, truth.len() - tp));
            ws_empty.push(truth.is_empty() && predicted.is_empty());
        }
        let ws_active = if same_content {
            ws_counts.iter().filter(|c| c.0 + c.1 + c.2 > 0).count()
        } else {
            0
        };
        let mut note_ws = json!(null);
        match guarded(obs, "whitespace_f1", || {
            whitespace_correction_f1(&c.input, &c.pred, &c.target, beta, seq_avg, mode_of(mode), gr)
        }) {
            Some(Ok(((f, p, r), infos))) => {
                note_ws = json!([f, p, r]);
                obs.tag("whitespace_f1-ok");
                let ranged = obs.check(in_unit(f) && in_unit(p) && in_unit(r), "whitespace_f1/range", || {
                    format!("(f,p,r)=({f},{p},{r}) for {cfg}")
                });
                if ranged && !seq_avg {
                    let want = fbeta_of(p, r, beta);
                    obs.check((f - want).abs() <= EPS, "whitespace_f1/micro-f-not-fbeta-of-p-r", || {
                        format!("f={f} but F-beta(p={p}, r={r})={want} for {cfg}")
                    });
                }
                if ranged && stable && same_content {
                    if n > 0 || !seq_avg {
                        let want = aggregate(&ws_counts, &ws_empty, beta, seq_avg);
                        obs.check(
                            close3((f, p, r), want),
                            if seq_avg { "whitespace_f1/value/sequence-averaged" } else { "whitespace_f1/value/micro" },
                            || format!("got (f,p,r)=({f},{p},{r}), expected {want:?} from per-sequence (tp,fp,fn)={ws_counts:?}, both-sets-empty={ws_empty:?} for {cfg}"),
                        );
                    }
                    if obs.check(infos.len() == n, "whitespace_f1/info-count", || {
                        format!("{} infos for {n} sequences", infos.len())
                    }) {
                        for (i, info) in infos.iter().enumerate() {
                            match info {
                                F1Info::WhitespaceCorrectionInfo((a, b, d)) => {
                                    let got = (a.len(), b.len(), d.len());
                                    obs.check(got == ws_counts[i], "whitespace_f1/info-cardinalities", || {
                                        format!("sequence {i}: info lists have sizes {got:?}, reference (tp,fp,fn)={:?}; info={info:?} for {cfg}", ws_counts[i])
                                    });
                                    // the lists hold whitespace operations only
                                    let only_ops = a.iter().chain(b).chain(d).all(|(_, op)| {
                                        matches!(
                                            (op, mode),
                                            (Operation::Insert, 0 | 2) | (Operation::Delete, 1 | 2)
                                        )
                                    });
                                    obs.check(only_ops, "whitespace_f1/info-operation-outside-mode", || {
                                        format!("sequence {i}: {info:?} in mode {} for {cfg}", mode)
                                    });
                                }
                                other => obs.fail("whitespace_f1/info-kind", format!("sequence {i}: {other:?}")),
                            }
                        }
                    }
                    obs.tag_if(ws_active >= 2, "whitespace-nontrivial");
                    obs.tag_if(ws_empty.iter().any(|e| *e) && seq_avg, "whitespace-(1,1,1)-convention-used");
                    obs.tag(match mode {
                        0 => "mode-insertions",
                        1 => "mode-deletions",
                        _ => "mode-insertions-and-deletions",
                    });
                }
            }
            Some(Err(e)) => {
                obs.tag("whitespace_f1-err");
                if stable && same_content {
                    obs.fail("whitespace_f1/err-on-respacing", format!("{e} for {cfg}"));
                }
            }
            None => {}
        }
        obs.tag_if(!same_content, "different-non-whitespace-content");

        // ---- mean (normalised) edit distance between prediction and target
        let mut want_med = 0.0;
        let mut want_mned = 0.0;
        for i in 0..n {
            let a = chars_of(&cl_pr[i], gr);
            let b = chars_of(&cl_tg[i], gr);
            let d = levenshtein(&a, &b);
            want_med += d as f64;
            want_mned += d as f64 / a.len().max(b.len()).max(1) as f64;
        }
        want_med /= n.max(1) as f64;
        want_mned /= n.max(1) as f64;
        match guarded(obs, "mean_edit_distance", || mean_edit_distance(&c.pred, &c.target, gr)) {
            Some(Ok(v)) => {
                let fine = obs.check(v.is_finite() && v >= 0.0, "mean_edit_distance/range", || format!("{v} for {cfg}"));
                if fine && stable {
                    obs.check((v - want_med).abs() <= EPS, "mean_edit_distance/value", || {
                        format!("got {v}, expected {want_med} for graphemes={gr} pred={:?} target={:?}", c.pred, c.target)
                    });
                }
            }
            Some(Err(e)) => obs.fail("mean_edit_distance/err-on-equal-lengths", format!("{e}")),
            None => {}
        }
        match guarded(obs, "mean_normalized_edit_distance", || {
            mean_normalized_edit_distance(&c.pred, &c.target, gr)
        }) {
            Some(Ok(v)) => {
                let fine = obs.check(in_unit(v), "mean_normalized_edit_distance/range", || format!("{v} for {cfg}"));
                if fine && stable {
                    obs.check((v - want_mned).abs() <= EPS, "mean_normalized_edit_distance/value", || {
                        format!("got {v}, expected {want_mned} for graphemes={gr} pred={:?} target={:?}", c.pred, c.target)
                    });
                }
            }
            Some(Err(e)) => obs.fail("mean_normalized_edit_distance/err-on-equal-lengths", format!("{e}")),
            None => {}
        }
        obs.tag_if(stable && want_med > 0.0, "edit-distance-nonzero");

        // ---- accuracy on the raw strings (generic: exact equality, no cleaning)
        match guarded(obs, "accuracy", || accuracy(&c.pred, &c.target)) {
            Some(Ok(v)) => {
                let eq = (0..n).filter(|i| c.pred[*i] == c.target[*i]).count();
                let want = eq as f64 / n.max(1) as f64;
                obs.check((v - want).abs() <= 1e-12, "accuracy/value", || {
                    format!("pred={:?} target={:?}: got {v}, expected {want}", c.pred, c.target)
                });
            }
            Some(Err(e)) => obs.fail("accuracy/err-on-equal-lengths", format!("{e}")),
            None => {}
        }

        // ---- one list one element off: Err, not a value and not a panic
        let grow = c.mismatch >= 3;
        let (mut li, mut lp, mut lt) = (c.input.clone(), c.pred.clone(), c.target.clone());
        match c.mismatch % 3 {
            0 => li = off_by_one(&li, grow),
            1 => lp = off_by_one(&lp, grow),
            _ => lt = off_by_one(&lt, grow),
        }
        if let Some(Ok(v)) = guarded(obs, "spelling_f1/length-mismatch", || {
            spelling_correction_f1(&li, &lp, &lt, beta, seq_avg, gr)
        }) {
            obs.fail("spelling_f1/length-mismatch-accepted", format!("{:?} for lengths {} {} {}", v.0, li.len(), lp.len(), lt.len()));
        }
        if let Some(Ok(v)) = guarded(obs, "whitespace_f1/length-mismatch", || {
            whitespace_correction_f1(&li, &lp, &lt, beta, seq_avg, mode_of(mode), gr)
        }) {
            obs.fail("whitespace_f1/length-mismatch-accepted", format!("{:?} for lengths {} {} {}", v.0, li.len(), lp.len(), lt.len()));
        }
        // two-list functions: shorten / extend the first or the second list
        let (two_a, two_b) = if c.mismatch % 2 == 0 {
            (off_by_one(&c.pred, grow), c.target.clone())
        } else {
            (c.pred.clone(), off_by_one(&c.target, grow))
        };
        if let Some(Ok(v)) = guarded(obs, "mean_edit_distance/length-mismatch", || mean_edit_distance(&two_a, &two_b, gr)) {
            obs.fail("mean_edit_distance/length-mismatch-accepted", format!("{v} for lengths {} {}", two_a.len(), two_b.len()));
        }
        if let Some(Ok(v)) = guarded(obs, "mean_normalized_edit_distance/length-mismatch", || {
            mean_normalized_edit_distance(&two_a, &two_b, gr)
        }) {
            obs.fail("mean_normalized_edit_distance/length-mismatch-accepted", format!("{v} for lengths {} {}", two_a.len(), two_b.len()));
        }
        if let Some(Ok(v)) = guarded(obs, "accuracy/length-mismatch", || accuracy(&two_a, &two_b)) {
            obs.fail("accuracy/length-mismatch-accepted", format!("{v} for lengths {} {}", two_a.len(), two_b.len()));
        }

        // ---- evidence
        obs.nontrivial_if(ws_active >= 2 || sp_active >= 2);
        obs.tag_if(seq_avg, "sequence-averaged");
        obs.tag_if(!seq_avg, "micro-averaged");
        obs.tag_if(gr, "graphemes");
        obs.max("sequences", n as u64);
        obs.add("sequences-with-nonzero-whitespace-counts", ws_active as u64);
        obs.add("sequences-with-misspelled-words", sp_active as u64);
        obs.note(json!({
            "class": c.class,
            "value_judged": stable,
            "same_non_whitespace_content": same_content,
            "spelling_fpr": note_sp,
            "whitespace_fpr": note_ws,
            "reference_whitespace_counts": if same_content { json!(ws_counts) } else { json!(null) },
            "misspelled_words_per_sequence": mis,
            "mean_edit_distance_reference": want_med,
        }));
    }
}
