//! C16 — inference windows tile the text exactly and respect the size limits.
use crate::core::*;
use crate::gen::{self, chars_of, CLUSTERS};
use rand::seq::IndexedRandom;
use rand::Rng as _;
use serde::{Deserialize, Serialize};
use serde_json::json;
use text_utils::text::{possible_byte_substrings, possible_character_substrings};
use text_utils::windows::{self, Window, WindowConfig};

pub struct C16;

#[derive(Serialize, Deserialize, Clone, Copy, Debug, PartialEq, Eq)]
pub enum Mode {
    #[serde(rename = "char")]
    Char,
    #[serde(rename = "byte")]
    Byte,
    #[serde(rename = "full")]
    Full,
}

#[derive(Serialize, Deserialize, Clone, Debug)]
pub struct Case {
    pub text: String,
    pub mode: Mode,
    /// max_chars / max_bytes (ignored for full)
    pub max: usize,
    /// context_chars / context_bytes (ignored for full)
    pub ctx: usize,
    pub graphemes: bool,
    /// call `windows(text, &WindowConfig)` instead of `char` / `byte` directly
    pub via_config: bool,
    /// budget for possible_character_substrings / possible_byte_substrings (>= 1)
    pub sub_max: usize,
}

const ONE: &[&str] = &["a", "b", " ", "x", "."];
const TWO: &[&str] = &["ä", "ß", "Ж", "\u{a0}"];
const THREE: &[&str] = &["語", "ह", "\u{2003}", "ﬁ"];
const FOUR: &[&str] = &["😀", "𝒳"];
/// code points that extend the preceding cluster in grapheme mode
const MARKS: &[&str] = &["\u{301}", "\u{308}", "\u{94d}", "\u{200d}", "\u{fe0f}"];

fn gen_text(rng: &mut Rng) -> String {
    // width class of the case: decides which pools are mixed in, so that byte windows see both
    // texts in which every character fits and texts with characters wider than the window
    let class = rng.random_range(0..10);
    let mut pools: Vec<(&[&str], u32)> = vec![(ONE, 10)];
    match class {
        0 => {}
        1..=3 => pools.push((TWO, 6)),
        4..=6 => {
            pools.push((TWO, 4));
            pools.push((THREE, 4));
            pools.push((FOUR, 3));
        }
        _ => {
            pools.push((TWO, 3));
            pools.push((THREE, 3));
            pools.push((FOUR, 3));
            pools.push((CLUSTERS, 4));
            pools.push((MARKS, 2));
        }
    }
    // a few symbols from the whole-code-space sample (any width, combining, joiners, jamo ...)
    let extra: Vec<&str> = if rng.random_bool(0.25) {
        let t = gen::scalars();
        (0..rng.random_range(1..=4)).map(|_| t[rng.random_range(0..t.len())].as_str()).collect()
    } else {
        vec![]
    };
    if !extra.is_empty() {
        pools.push((&extra, 3));
    }
    if rng.random_bool(0.1) {
        // no single byte characters at all
        pools.remove(0);
        if pools.is_empty() {
            pools.push((THREE, 1));
        }
    }
    let total: u32 = pools.iter().map(|p| p.1).sum();
    let n = match rng.random_range(0..100) {
        // `large` lane: 121 - 8000 symbols (the repo's position lookup is linear in the number
        // of runs of equal byte width, so windows over longer mixed-width texts cost seconds)
        _ if gen::scale() > 1 => rng.random_range(121..=gen::sc(120).min(8_000)),
        0 => 0,
        1..=30 => rng.random_range(1..=8),
        31..=75 => rng.random_range(9..=40),
        _ => rng.random_range(41..=120),
    };
    let mut s = String::new();
    for _ in 0..n {
        let mut r = rng.random_range(0..total);
        for (pool, w) in &pools {
            if r < *w {
                s.push_str(pool.choose(rng).copied().unwrap_or("a"));
                break;
            }
            r -= *w;
        }
    }
    s
}

fn gen_limits(rng: &mut Rng) -> (usize, usize) {
    let max: usize = match rng.random_range(0..100) {
        50..=99 if gen::scale() > 1 => rng.random_range(41..=gen::sc(400).min(20_000)),
        0 => 0,
        1..=70 => rng.random_range(1..=12),
        71..=97 => rng.random_range(13..=40),
        _ => rng.random_range(41..=400),
    };
    let ctx: usize = match rng.random_range(0..100) {
        // valid
        0..=54 => rng.random_range(0..=max.saturating_sub(1) / 2),
        // the two sides of the validity boundary: max == 2*ctx and max == 2*ctx + 1
        55..=59 => max / 2,
        60..=64 => max.saturating_sub(1) / 2,
        65..=69 => 0,
        // anything (mostly invalid for small max)
        _ => rng.random_range(0..=20),
    };
    (max, ctx)
}

/// at least one of the two limits is within a few units of usize::MAX / 2 or usize::MAX
fn gen_extreme_limits(rng: &mut Rng) -> (usize, usize) {
    let near = |rng: &mut Rng| -> usize {
        let anchor = *[usize::MAX, usize::MAX / 2, usize::MAX / 2 + 1, usize::MAX / 3]
            .choose(rng)
            .unwrap_or(&usize::MAX);
        let d = rng.random_range(0..=3usize);
        if rng.random_bool(0.5) {
            anchor.saturating_sub(d)
        } else {
            anchor.saturating_add(d)
        }
    };
    match rng.random_range(0..3) {
        0 => (rng.random_range(1..=40), near(rng)),
        1 => (near(rng), rng.random_range(0..=20)),
        _ => (near(rng), near(rng)),
    }
}

struct Model<'a> {
    text: &'a str,
    chars: Vec<&'a str>,
    /// pre[k] = byte offset at which character k starts; pre[n] = text.len()
    pre: Vec<usize>,
}

impl<'a> Model<'a> {
    fn new(text: &'a str, graphemes: bool) -> Self {
        let chars = chars_of(text, graphemes);
        let mut pre = Vec::with_capacity(chars.len() + 1);
        let mut acc = 0usize;
        pre.push(0);
        for c in &chars {
            acc += c.len();
            pre.push(acc);
        }
        Model { text, chars, pre }
    }
    fn n(&self) -> usize {
        self.chars.len()
    }
    fn widest(&self) -> usize {
        self.chars.iter().map(|c| c.len()).max().unwrap_or(0)
    }
}

/// judge an `Ok` result; returns the number of violations it recorded
fn judge_ok(c: &Case, m: &Model, ws: &[Window], area: &str, obs: &mut Obs) {
    let n = m.n();
    let describe = |ws: &[Window]| -> String {
        let v: Vec<_> = ws
            .iter()
            .take(12)
            .map(|w| format!("{:?}/{:?}", w.boundaries(), w.byte_boundaries()))
            .collect();
        format!("{} windows (first 12: char/byte boundaries) {}", ws.len(), v.join(" "))
    };
    if !obs.check(!ws.is_empty(), &format!("{area}/no-windows"), || {
        "Ok(vec![]) for a non-empty text".to_string()
    }) {
        return;
    }
    let mut fails: Vec<(&'static str, String)> = vec![];
    let mut expect_start = 0usize;
    let mut concat = String::new();
    let mut concat_ok = true;
    for (i, w) in ws.iter().enumerate() {
        let (cs, s, e, ce) = w.boundaries();
        let (bcs, bs, be, bce) = w.byte_boundaries();
        if s != expect_start {
            fails.push((
                if i == 0 { "first-not-at-0" } else { "gap-or-overlap" },
                format!("window {i} starts at {s}, expected {expect_start}"),
            ));
        }
        expect_start = e;
        if s >= e {
            fails.push(("empty-window", format!("window {i} = [{s},{e})")));
        }
        if !(cs <= s && e <= ce) {
            fails.push((
                "context-does-not-contain-window",
                format!("window {i}: ctx [{cs},{ce}) window [{s},{e})"),
            ));
        }
        if ce > n || e > n {
            fails.push((
                "beyond-text",
                format!("window {i}: ctx_end {ce} window_end {e} > {n} characters"),
            ));
        }
        // size limits
        match c.mode {
            Mode::Char => {
                if ce.saturating_sub(cs) > c.max {
                    fails.push((
                        "context-exceeds-max",
                        format!("window {i}: ctx [{cs},{ce}) has {} characters > max {}", ce - cs, c.max),
                    ));
                }
            }
            Mode::Byte => {
                if bce.saturating_sub(bcs) > c.max {
                    fails.push((
                        "context-exceeds-max",
                        format!("window {i}: byte ctx [{bcs},{bce}) has {} bytes > max {}", bce - bcs, c.max),
                    ));
                }
            }
            Mode::Full => {}
        }
        // byte and character boundaries denote the same positions
        let want = [cs, s, e, ce].map(|k| m.pre.get(k).copied());
        let got = [bcs, bs, be, bce];
        if want.iter().zip(got.iter()).any(|(w, g)| *w != Some(*g)) {
            fails.push((
                "byte-boundaries-mismatch",
                format!("window {i}: char {:?} -> expected bytes {want:?}, reported {got:?}", w.boundaries()),
            ));
        }
        // reported string is the context slice
        match m.text.get(bcs..bce) {
            Some(slice) if slice == w.str => {}
            other => fails.push((
                "str-not-context-slice",
                format!("window {i}: str {:?} but text[{bcs}..{bce}] = {other:?}", w.str),
            )),
        }
        match m.text.get(bs..be) {
            Some(slice) => concat.push_str(slice),
            None => concat_ok = false,
        }
    }
    if expect_start != n {
        fails.push((
            "last-not-at-end",
            format!("last window ends at {expect_start}, text has {n} characters"),
        ));
    }
    if !concat_ok || concat != m.text {
        fails.push((
            "concat-not-text",
            format!("concatenated byte windows give {concat:?} (valid ranges: {concat_ok})"),
        ));
    }
    // one violation per kind and case
    let mut seen: Vec<&str> = vec![];
    for (k, d) in fails {
        if seen.contains(&k) {
            continue;
        }
        seen.push(k);
        obs.fail(format!("{area}/{k}"), format!("{d}; {}", describe(ws)));
    }
}

fn judge_substrings(
    m: &Model,
    v: &[(usize, usize, usize)],
    budget: usize,
    bytes: bool,
    area: &str,
    obs: &mut Obs,
) {
    for (k, &(sb, eb, nch)) in v.iter().enumerate() {
        let si = m.pre.binary_search(&sb);
        let ei = m.pre.binary_search(&eb);
        let ok = match (si, ei) {
            (Ok(si), Ok(ei)) => {
                sb < eb && ei - si == nch && if bytes { eb - sb <= budget } else { nch <= budget }
            }
            _ => false,
        };
        if !ok {
            obs.fail(
                format!("{area}/invalid-triple"),
                format!(
                    "triple {k} = ({sb},{eb},{nch}) is not a non-empty character-aligned range within the budget {budget} ({}); character starts {:?}",
                    if bytes { "bytes" } else { "characters" },
                    &m.pre[..m.pre.len().min(40)]
                ),
            );
            return;
        }
    }
}

impl Prop for C16 {
    type Case = Case;
    const ID: &'static str = "C16";

    fn lanes(tier: Tier) -> Vec<Lane> {
        vec![
            Lane::new("main", tier.pick(4_000_000, 60_000_000))
                .cap(tier.pick(150, 1200))
                .floor(tier.pick(20_000, 1_000_000)),
            // limits near the ends of usize: the validity test and the window arithmetic must not
            // overflow (few distinct configurations, hence a small lane)
            Lane::new("extreme", tier.pick(20_000, 200_000))
                .cap(tier.pick(90, 300))
                .floor(tier.pick(1_000, 10_000)),
            // texts of 121 - 8000 symbols (hundreds to thousands of runs of equal byte width),
            // half of the cases with window limits of 41 - 20 000
            Lane::new("large", tier.pick(3_000, 60_000))
                .cap(tier.pick(150, 1200))
                .floor(tier.pick(200, 4_000)),
        ]
    }

    fn rule() -> &'static str {
        "lane main: texts of 1-120 symbols (1%: empty) mixed from 1/2/3/4-byte code points, multi code point \
         grapheme clusters (ZWJ family, flag, Hangul jamo, CRLF, Devanagari) and stray combining marks, in \
         four width classes (ascii only ... clusters); max in 1..=40 (1%: 0, 2%: 41-400), context in \
         0..=20: 55% valid, 10% exactly on the validity boundary (max == 2*ctx / 2*ctx+1), 5% zero, 30% \
         uniform (mostly invalid); char / byte / full windows, called directly or through \
         windows(&WindowConfig); use_graphemes on/off. Every case also runs \
         possible_character_substrings and possible_byte_substrings with a budget in 1..=40. \
         distinct = hash of the case; non-trivial = the call returned Ok with >= 3 windows and a \
         multi-byte character lies directly before or after an inner window boundary. \
         lane extreme: same texts, char / byte windows, max and/or context within 3 of usize::MAX, \
         usize::MAX/2, usize::MAX/2+1 or usize::MAX/3 (the other limit small); same oracle (signatures \
         carry '/huge-limits'); non-trivial = non-empty text and a limit above u32::MAX."
    }

    fn assumptions() -> Vec<&'static str> {
        vec![
            "the character sequence (code points / extended grapheme clusters) is taken from unicode-segmentation in the oracle as in the repo; boundaries, byte offsets and sizes are recomputed from it by prefix sums",
            "an Err is judged by its justification (max <= 2*context, or in byte mode a character wider than max - 2*context), not by its message",
            "the empty string is outside the quantifier: only 'no panic' is judged for it",
            "possible_*_substrings: only validity of every returned triple (character-aligned, non-empty, counted correctly, within the budget) is judged, not completeness; budget 0 is not generated",
            "non-termination is decided by the supervisor's CPU budget",
        ]
    }

    fn generate(rng: &mut Rng, _tier: Tier, lane: &str) -> Case {
        let text = gen_text(rng);
        let extreme = lane == "extreme";
        let mode = match rng.random_range(0..20) {
            0 if !extreme => Mode::Full,
            0..=9 => Mode::Char,
            _ => Mode::Byte,
        };
        let (max, ctx) = if extreme {
            gen_extreme_limits(rng)
        } else {
            gen_limits(rng)
        };
        Case {
            text,
            mode,
            max,
            ctx,
            graphemes: rng.random_bool(0.5),
            via_config: mode == Mode::Full || rng.random_bool(0.4),
            sub_max: if rng.random_bool(0.7) {
                rng.random_range(1..=8)
            } else {
                rng.random_range(9..=40)
            },
        }
    }

    fn check(c: &Case, obs: &mut Obs) {
        // history round (core::history_round): the same inputs with `graphemes` flipped in between
        if history_round(
            c,
            obs,
            |c| {
                let mut v = c.clone();
                v.graphemes = !v.graphemes;
                v
            },
            Self::check,
        ) {
            return;
        }
        let m = Model::new(&c.text, c.graphemes);
        let n = m.n();
        // limits beyond any text length get their own signatures
        let huge = c.mode != Mode::Full && (c.max > u32::MAX as usize || c.ctx > u32::MAX as usize);
        let area = match (c.mode, c.via_config, huge) {
            (Mode::Char, false, false) => "char",
            (Mode::Byte, false, false) => "byte",
            (Mode::Char, true, false) => "windows-char",
            (Mode::Byte, true, false) => "windows-byte",
            (Mode::Char, false, true) => "char/huge-limits",
            (Mode::Byte, false, true) => "byte/huge-limits",
            (Mode::Char, true, true) => "windows-char/huge-limits",
            (Mode::Byte, true, true) => "windows-byte/huge-limits",
            (Mode::Full, _, _) => "windows-full",
        };
        obs.tag_if(huge, "huge-limits");
        obs.tag(match c.mode {
            Mode::Char => "mode-char",
            Mode::Byte => "mode-byte",
            Mode::Full => "mode-full",
        });
        obs.tag_if(c.graphemes, "graphemes");
        obs.tag_if(c.via_config, "via-WindowConfig");
        obs.tag_if(c.text.is_empty(), "empty-text");
        obs.tag_if(m.chars.iter().any(|g| g.chars().count() > 1), "multi-code-point-cluster");
        obs.tag_if(c.ctx == 0, "context-zero");

        let result = guarded(obs, area, || {
            if c.via_config {
                let cfg = match c.mode {
                    Mode::Char => WindowConfig::Character(c.max, c.ctx, c.graphemes),
                    Mode::Byte => WindowConfig::Bytes(c.max, c.ctx, c.graphemes),
                    Mode::Full => WindowConfig::Full(c.graphemes),
                };
                windows::windows(&c.text, &cfg)
            } else if c.mode == Mode::Char {
                windows::char(&c.text, c.max, c.ctx, c.graphemes)
            } else {
                windows::byte(&c.text, c.max, c.ctx, c.graphemes)
            }
        });

        // the two legitimate reasons for an error (u128 so that the oracle itself cannot overflow)
        let impossible = c.mode != Mode::Full && (c.max as u128) <= 2 * (c.ctx as u128);
        let wide = c.mode == Mode::Byte
            && !impossible
            && m.widest() > c.max - 2 * c.ctx;

        let mut n_windows = 0usize;
        let mut outcome = "panic";
        if !c.text.is_empty() {
            match &result {
                None => {}
                Some(Ok(ws)) => {
                    outcome = "ok";
                    n_windows = ws.len();
                    if impossible {
                        obs.fail(
                            format!("{area}/impossible-config-accepted"),
                            format!("max {} <= 2*context {} but the call returned Ok with {} windows", c.max, c.ctx, ws.len()),
                        );
                    } else {
                        judge_ok(c, &m, ws, area, obs);
                        // non-triviality: measured on the result
                        let inner_multibyte = ws.iter().take(ws.len().saturating_sub(1)).any(|w| {
                            let e = w.boundaries().2;
                            e >= 1
                                && e < n
                                && (m.chars[e - 1].len() > 1 || m.chars[e].len() > 1)
                        });
                        obs.nontrivial_if(ws.len() >= 3 && inner_multibyte);
                        obs.tag_if(ws.len() == 1, "ok-single-window");
                        obs.tag_if(ws.len() >= 3, "ok-3+-windows");
                        obs.tag_if(wide, "ok-although-wide-character");
                        obs.tag_if(
                            ws.iter().any(|w| {
                                let (cs, s, e, ce) = w.boundaries();
                                cs < s && e < ce
                            }),
                            "ok-context-on-both-sides",
                        );
                        obs.max("windows", ws.len() as u64);
                    }
                }
                Some(Err(e)) => {
                    outcome = "err";
                    if impossible {
                        obs.tag("err-impossible-config");
                    } else if wide {
                        obs.tag("err-wide-character");
                    } else {
                        obs.fail(
                            format!("{area}/spurious-error"),
                            format!(
                                "max {} > 2*context {}, widest character {} bytes, {} characters: Err({e})",
                                c.max,
                                c.ctx,
                                m.widest(),
                                n
                            ),
                        );
                    }
                }
            }
        } else if let Some(r) = &result {
            outcome = if r.is_ok() { "ok" } else { "err" };
        }
        // lane "extreme": the interesting behaviour is the arithmetic on the limits themselves
        obs.nontrivial_if(huge && !c.text.is_empty());

        // the helpers with the same index arithmetic
        if let Some(v) = guarded(obs, "possible_character_substrings", || {
            possible_character_substrings(&c.text, c.sub_max, c.graphemes)
        }) {
            if !c.text.is_empty() {
                judge_substrings(&m, &v, c.sub_max, false, "possible_character_substrings", obs);
                obs.add("character-substrings", v.len() as u64);
            }
        }
        if let Some(v) = guarded(obs, "possible_byte_substrings", || {
            possible_byte_substrings(&c.text, c.sub_max, c.graphemes)
        }) {
            if !c.text.is_empty() {
                judge_substrings(&m, &v, c.sub_max, true, "possible_byte_substrings", obs);
                obs.add("byte-substrings", v.len() as u64);
                obs.tag_if(v.is_empty(), "byte-substrings-none-fit");
            }
        }
        obs.note(json!({
            "characters": n,
            "bytes": c.text.len(),
            "widest": m.widest(),
            "outcome": outcome,
            "windows": n_windows,
        }));
    }
}
