//! C01 — byte and char tokenizers encode every character faithfully and losslessly.
//!
//! Helpers that would also fit into gen.rs (kept here on purpose, see the brief): `Spec`,
//! `gen_spec`, `gen_text`, `occurrences`, `overlapping`, `ref_split` (the same helpers are
//! duplicated in c17.rs, and `Spec`/`gen_spec` in c04.rs).
use crate::core::*;
use crate::gen::{self, chars_of};
use rand::seq::{IndexedRandom, SliceRandom};
use rand::Rng as _;
use serde::{Deserialize, Serialize};
use serde_json::json;
use std::collections::{HashMap, HashSet};
use text_utils::tokenization::{
    tokenizer, ByteGroups, ByteTokenizer, ByteTokenizerConfig, CharTokenizer,
    CharTokenizerConfig, GroupAggregation, SpecialConfig, TokenizeConfig, Tokenizer,
    TokenizerConfig,
};
use unicode_segmentation::UnicodeSegmentation;

pub struct C01;

/// serde mirror of the repo's SpecialConfig
#[derive(Serialize, Deserialize, Clone, Debug)]
pub struct Spec {
    pub pad: String,
    pub tokens: Vec<String>,
    pub prefix: Vec<String>,
    pub suffix: Vec<String>,
}

impl Spec {
    pub fn to_repo(&self) -> SpecialConfig {
        SpecialConfig {
            pad: self.pad.clone(),
            tokens: self.tokens.clone(),
            prefix: self.prefix.clone(),
            suffix: self.suffix.clone(),
        }
    }
    /// distinct spellings in order of first occurrence
    pub fn distinct(&self) -> Vec<String> {
        let mut seen = HashSet::new();
        self.tokens
            .iter()
            .filter(|t| seen.insert(t.as_str()))
            .cloned()
            .collect()
    }
    pub fn has_duplicates(&self) -> bool {
        self.distinct().len() != self.tokens.len()
    }
}

#[derive(Serialize, Deserialize, Clone, Debug)]
pub struct Case {
    /// "byte" | "char"
    pub kind: String,
    pub graphemes: bool,
    /// byte tokenizer: ByteGroups::CodePoints instead of Bytes
    pub groups_cp: bool,
    /// byte tokenizer: GroupAggregation::Sum instead of Mean
    pub agg_sum: bool,
    /// byte tokenizer
    pub pad_to: Option<usize>,
    /// char tokenizer
    pub unk: String,
    pub spec: Spec,
    /// build through `tokenizer(TokenizerConfig)` instead of the concrete constructor
    pub factory: bool,
    pub texts: Vec<String>,
}

const DEFAULT_SPECIALS: &[&str] = &["<unk>", "<bos>", "<eos>", "<pad>"];
/// further special spellings: regex meta characters, multi-byte, the spelling of the automatic
/// padding tokens; none is a single ASCII character (those would coincide with regular tokens)
const EXTRA_POOL: &[&str] = &[
    "<mask>", "<sep>", "<cls>", "[SEP]", "[MASK]", "</s>", "<s>", "||", "<lang:de>", "<ä>", "▁▁",
    "<extra_token_0>", "<extra_token_1>", "(x)", "a+b", ".*", "\\n", "<|endoftext|>", "$$", "^^",
    "<語>", "😀😀", "<PAD>",
];
/// spellings that are prefixes of / overlap with other spellings or with themselves
const AMBIG_POOL: &[&str] = &[
    "<pad", "<pad>>", "<<pad>>", "<pad><eos>", "aa", "ab", "<p", ">x<", "pad", "<unk", "os><",
    "><", "aba",
];

pub fn gen_spec(rng: &mut Rng, ambiguous: bool) -> Spec {
    let mut tokens: Vec<String> = if rng.random_bool(0.75) {
        DEFAULT_SPECIALS.iter().map(|s| s.to_string()).collect()
    } else {
        let n = rng.random_range(1..=4);
        (0..n)
            .map(|_| {
                if rng.random_bool(0.5) {
                    DEFAULT_SPECIALS.choose(rng).unwrap().to_string()
                } else {
                    EXTRA_POOL.choose(rng).unwrap().to_string()
                }
            })
            .collect()
    };
    let n_extra = *[0usize, 0, 0, 1, 2, 3, 4].choose(rng).unwrap();
    for _ in 0..n_extra {
        tokens.push(EXTRA_POOL.choose(rng).unwrap().to_string());
    }
    if ambiguous {
        for _ in 0..rng.random_range(1..=3) {
            tokens.push(AMBIG_POOL.choose(rng).unwrap().to_string());
        }
    }
    if rng.random_bool(0.3) {
        let d = tokens.choose(rng).unwrap().clone();
        let i = rng.random_range(0..=tokens.len());
        tokens.insert(i, d);
    }
    if rng.random_bool(0.3) {
        tokens.shuffle(rng);
    }
    let pad = if rng.random_bool(0.97) {
        if tokens.iter().any(|t| t == "<pad>") && rng.random_bool(0.7) {
            "<pad>".to_string()
        } else {
            tokens.choose(rng).unwrap().clone()
        }
    } else {
        "<nopad>".to_string()
    };
    let list = |rng: &mut Rng| -> Vec<String> {
        let n = *[0usize, 0, 1, 1, 2, 3].choose(rng).unwrap();
        (0..n)
            .map(|_| {
                if rng.random_bool(0.985) {
                    tokens.choose(rng).unwrap().clone()
                } else {
                    "<missing>".to_string()
                }
            })
            .collect()
    };
    let prefix = list(rng);
    let suffix = list(rng);
    Spec {
        pad,
        tokens,
        prefix,
        suffix,
    }
}

/// a text with special spellings and near-misses injected next to multi-byte material
pub fn gen_text(rng: &mut Rng, specials: &[String], ascii_only: bool) -> String {
    let mut cs: Vec<String> = if ascii_only {
        let n = gen::len_geo(rng, 12.0, 40);
        (0..n)
            .map(|_| ((0x20u8 + rng.random_range(0..95u8)) as char).to_string())
            .collect()
    } else {
        let flavor = gen::flavor(rng);
        let base = gen::ustring(rng, flavor, 40);
        chars_of(&base, false).iter().map(|s| s.to_string()).collect()
    };
    let k = gen::sc(*[0usize, 1, 1, 2, 3].choose(rng).unwrap());
    for _ in 0..k {
        let sp: String = if rng.random_bool(0.8) && !specials.is_empty() {
            specials.choose(rng).unwrap().clone()
        } else {
            gen::SPECIAL_LIKE.choose(rng).unwrap().to_string()
        };
        let chars: Vec<char> = sp.chars().collect();
        let piece: String = match rng.random_range(0..10) {
            0..=5 => sp.clone(),
            6 => chars[..chars.len().saturating_sub(1)].iter().collect(),
            7 => chars[1.min(chars.len())..].iter().collect(),
            8 => sp.to_uppercase(),
            _ => format!("{sp}{sp}"),
        };
        let i = rng.random_range(0..=cs.len());
        cs.insert(i, piece);
        if !ascii_only {
            let pool: &[&str] = match rng.random_range(0..3) {
                0 => gen::MULTIBYTE,
                1 => gen::CLUSTERS,
                _ => gen::COMBINING,
            };
            if rng.random_bool(0.35) {
                cs.insert(i + 1, pool.choose(rng).unwrap().to_string());
            }
            if rng.random_bool(0.35) {
                cs.insert(i, pool.choose(rng).unwrap().to_string());
            }
        }
    }
    cs.concat()
}

/// every occurrence (byte range) of every spelling, by brute force, sorted
pub fn occurrences(text: &str, specials: &[String]) -> Vec<(usize, usize)> {
    let mut occ = vec![];
    for (i, _) in text.char_indices() {
        for sp in specials {
            if !sp.is_empty() && text[i..].starts_with(sp.as_str()) {
                occ.push((i, i + sp.len()));
            }
        }
    }
    occ.sort();
    occ.dedup();
    occ
}

/// true if two occurrences share a byte (then the statement does not prescribe the segmentation)
pub fn overlapping(occ: &[(usize, usize)]) -> bool {
    let mut max_end = 0;
    for &(s, e) in occ {
        if s < max_end {
            return true;
        }
        max_end = max_end.max(e);
    }
    false
}

#[derive(Debug, Clone, Copy, PartialEq)]
pub enum Seg<'a> {
    Reg(&'a str),
    Spec(&'a str),
}

/// reference segmentation for non-overlapping occurrences
pub fn ref_split<'a>(text: &'a str, occ: &[(usize, usize)]) -> Vec<Seg<'a>> {
    let mut out = vec![];
    let mut pos = 0;
    for &(s, e) in occ {
        if s > pos {
            out.push(Seg::Reg(&text[pos..s]));
        }
        out.push(Seg::Spec(&text[s..e]));
        pos = e;
    }
    if pos < text.len() {
        out.push(Seg::Reg(&text[pos..]));
    }
    out
}

fn common_prefix_chars(a: &str, b: &str) -> usize {
    a.chars().zip(b.chars()).take_while(|(x, y)| x == y).count()
}

/// some position of the text starts with >= 2 but not all characters of a special spelling
fn has_near_miss(text: &str, specials: &[String]) -> bool {
    text.char_indices().any(|(i, _)| {
        specials.iter().any(|sp| {
            let l = common_prefix_chars(&text[i..], sp);
            l >= 2 && l < sp.chars().count()
        })
    })
}

struct Built {
    tok: Tokenizer,
    unk_id: Option<u32>,
}

fn build(c: &Case) -> anyhow::Result<Built> {
    if c.kind == "byte" {
        let cfg = ByteTokenizerConfig {
            use_graphemes: c.graphemes,
            pad_to_multiple_of: c.pad_to,
            groups: if c.groups_cp {
                ByteGroups::CodePoints
            } else {
                ByteGroups::Bytes
            },
            aggregation: if c.agg_sum {
                GroupAggregation::Sum
            } else {
                GroupAggregation::Mean
            },
        };
        let tok: Tokenizer = if c.factory {
            tokenizer(TokenizerConfig {
                tokenize: TokenizeConfig::Byte(cfg),
                special: c.spec.to_repo(),
            })?
        } else {
            Box::new(ByteTokenizer::new(cfg, c.spec.to_repo())?)
        };
        Ok(Built { tok, unk_id: None })
    } else {
        let cfg = CharTokenizerConfig {
            use_graphemes: c.graphemes,
            unk_token: c.unk.clone(),
        };
        if c.factory {
            let tok = tokenizer(TokenizerConfig {
                tokenize: TokenizeConfig::Character(cfg),
                special: c.spec.to_repo(),
            })?;
            Ok(Built { tok, unk_id: None })
        } else {
            let t = CharTokenizer::new(cfg, c.spec.to_repo())?;
            let unk_id = Some(t.unk_token_id());
            Ok(Built {
                tok: Box::new(t),
                unk_id,
            })
        }
    }
}

fn mismatch_part(ids: &[u32], pre: &[u32], suf: &[u32]) -> &'static str {
    if ids.len() < pre.len() + suf.len() || !ids.starts_with(pre) {
        "prefix"
    } else if !ids.ends_with(suf) {
        "suffix"
    } else {
        "body"
    }
}

impl Prop for C01 {
    type Case = Case;
    const ID: &'static str = "C01";

    fn lanes(tier: Tier) -> Vec<Lane> {
        vec![
            Lane::new("main", tier.pick(400_000, 9_000_000))
                .cap(tier.pick(150, 900))
                .floor(tier.pick(30_000, 400_000)),
            // the same generator with every length 10 / 50 / 250 times bigger (texts of up to
            // 10 000 symbols with up to 750 injected special spellings)
            Lane::new("large", tier.pick(4_000, 80_000))
                .cap(tier.pick(150, 900))
                .floor(tier.pick(300, 4_000)),
        ]
    }

    fn rule() -> &'static str {
        "one tokenizer per case (60% byte, 40% char; graphemes on/off; byte/code-point groups; mean/sum; \
         pad_to_multiple_of in {None,1,2,64,128,512}; special lists: the default four or 1-4 drawn from \
         a pool with regex meta characters and multi-byte spellings, 0-4 extras, duplicates, shuffled; \
         prefix/suffix lists of length 0-3 drawn from the specials; 30% built through tokenizer(cfg)) and \
         1-4 texts (gen::ustring, or printable ASCII for the char tokenizer) into which 0-3 special \
         spellings / near-misses (last or first character dropped, upper-cased, doubled) are injected \
         next to multi-byte letters, clusters and combining marks. Every text is tokenised with \
         ignore_special_tokens off and on. Oracle: brute-force occurrence scanner + unicode-segmentation. \
         12% of the cases add specials that are prefixes of / overlap each other; whenever two \
         occurrences of special spellings overlap in a text only the decode round trip is judged. \
         about 6% have a pad/prefix/suffix token that is not a special token (the constructor's Err is \
         legitimate; such cases are not judged further). distinct = hash of the case; non-trivial = some text contains a multi-code-point \
         grapheme cluster, or a multi-byte character together with a parsed special token or a near-miss \
         (>= 2 leading characters of a special spelling that do not continue to the full spelling)."
    }

    fn assumptions() -> Vec<&'static str> {
        vec![
            "extended grapheme clusters are taken from unicode-segmentation in the oracle as in the repo",
            "the id of a special spelling is what token_to_id reports for it, the char alphabet is what get_vocab lists besides the special spellings (consistency of these maps is C04)",
            "the automatic <extra_token_i> specials of the byte tokenizer are read from get_vocab (ids >= 256)",
            "characters are segmented inside each piece between parsed special tokens (a combining mark after a special token starts a new character)",
        ]
    }

    fn generate(rng: &mut Rng, _tier: Tier, _lane: &str) -> Case {
        let kind = if rng.random_bool(0.6) { "byte" } else { "char" };
        let ambiguous = rng.random_bool(0.12);
        let spec = gen_spec(rng, ambiguous);
        let unk = match rng.random_range(0..10) {
            0..=5 => "<unk>".to_string(),
            6 => "<UNK>".to_string(),
            7 => "[UNK]".to_string(),
            8 => "\u{fffd}".to_string(),
            _ => spec.tokens.choose(rng).unwrap().clone(),
        };
        let mut specials = spec.distinct();
        if kind == "char" && !specials.contains(&unk) {
            specials.push(unk.clone());
        }
        let n = rng.random_range(1..=4);
        let texts = (0..n)
            .map(|_| {
                let ascii = kind == "char" && rng.random_bool(0.45);
                gen_text(rng, &specials, ascii)
            })
            .collect();
        Case {
            kind: kind.to_string(),
            graphemes: rng.random_bool(0.5),
            groups_cp: rng.random_bool(0.5),
            agg_sum: rng.random_bool(0.3),
            pad_to: *[None, None, None, Some(1), Some(2), Some(64), Some(128), Some(512)]
                .choose(rng)
                .unwrap(),
            unk,
            spec,
            factory: rng.random_bool(0.3),
            texts,
        }
    }

    fn check(c: &Case, obs: &mut Obs) {
        // history round (core::history_round): the same inputs with `graphemes` flipped in between
        if history_round(
            c,
            obs,
            |c| {
                let mut v = c.clone();
                v.graphemes = !v.graphemes;
                v
            },
            Self::check,
        ) {
            return;
        }
        let is_byte = c.kind == "byte";
        let mut members: HashSet<&str> = c.spec.tokens.iter().map(|s| s.as_str()).collect();
        if !is_byte {
            members.insert(c.unk.as_str());
        }
        let valid = members.contains(c.spec.pad.as_str())
            && c.spec.prefix.iter().all(|t| members.contains(t.as_str()))
            && c.spec.suffix.iter().all(|t| members.contains(t.as_str()));
        let Some(built) = guarded(obs, "new", || build(c)) else {
            return;
        };
        let built = match built {
            Ok(b) => b,
            Err(e) => {
                if valid {
                    obs.fail("new/err-on-valid-config", format!("{e}"));
                } else {
                    obs.tag("ctor-err-legit");
                }
                return;
            }
        };
        if !valid {
            // statement says nothing about such configs
            obs.tag("ctor-ok-on-invalid-config");
            return;
        }
        let tok = &built.tok;
        obs.tag(if is_byte { "byte" } else { "char" });
        obs.tag_if(c.factory, "via-factory");
        obs.tag_if(c.graphemes, "graphemes");
        obs.tag_if(c.spec.has_duplicates(), "dup-specials");
        obs.tag_if(!c.spec.prefix.is_empty(), "prefix");
        obs.tag_if(!c.spec.suffix.is_empty(), "suffix");
        obs.tag_if(is_byte && c.pad_to.is_some(), "pad_to");

        let vocab = match guarded(obs, "get_vocab", || tok.get_vocab()) {
            Some(Ok(v)) => v,
            Some(Err(e)) => {
                obs.fail("get_vocab/err", format!("{e}"));
                return;
            }
            None => return,
        };
        // all special spellings known to the tokenizer
        let mut specials = c.spec.distinct();
        if is_byte {
            for e in vocab.iter().skip(256) {
                if let Ok(s) = std::str::from_utf8(e) {
                    if !specials.iter().any(|t| t == s) {
                        specials.push(s.to_string());
                    }
                }
            }
        } else if !specials.contains(&c.unk) {
            specials.push(c.unk.clone());
        }
        let special_bytes: HashSet<&[u8]> = specials.iter().map(|s| s.as_bytes()).collect();
        // alphabet of the char tokenizer
        let mut alpha: HashMap<char, u32> = HashMap::new();
        if !is_byte {
            for (id, e) in vocab.iter().enumerate() {
                if special_bytes.contains(e.as_slice()) {
                    continue;
                }
                if let Ok(s) = std::str::from_utf8(e) {
                    let mut it = s.chars();
                    if let (Some(ch), None) = (it.next(), it.next()) {
                        alpha.insert(ch, id as u32);
                    }
                }
            }
        }
        let sid = |s: &str| tok.token_to_id(s);
        let mut id_of: HashMap<&str, u32> = HashMap::new();
        for s in &specials {
            match sid(s) {
                Some(id) => {
                    id_of.insert(s.as_str(), id);
                }
                None => {
                    obs.fail("special/no-id", format!("token_to_id({s:?}) is None"));
                    return;
                }
            }
        }
        let pre: Vec<u32> = c.spec.prefix.iter().map(|s| id_of[s.as_str()]).collect();
        let suf: Vec<u32> = c.spec.suffix.iter().map(|s| id_of[s.as_str()]).collect();
        obs.check(tok.prefix_token_ids() == pre.as_slice(), "prefix_token_ids", || {
            format!("prefix_token_ids={:?} expected {pre:?}", tok.prefix_token_ids())
        });
        obs.check(tok.suffix_token_ids() == suf.as_slice(), "suffix_token_ids", || {
            format!("suffix_token_ids={:?} expected {suf:?}", tok.suffix_token_ids())
        });
        obs.check(tok.pad_token_id() == id_of[c.spec.pad.as_str()], "pad_token_id", || {
            format!("pad_token_id={} expected {}", tok.pad_token_id(), id_of[c.spec.pad.as_str()])
        });
        let unk_id = if is_byte { 0 } else { id_of[c.unk.as_str()] };
        if let Some(u) = built.unk_id {
            obs.check(u == unk_id, "char/unk_token_id", || {
                format!("unk_token_id()={u} but token_to_id(unk)={unk_id}")
            });
        }
        let pre_s: String = c.spec.prefix.concat();
        let suf_s: String = c.spec.suffix.concat();
        let area = if is_byte { "byte" } else { "char" };

        let mut nontrivial = false;
        let (mut n_parsed, mut n_unk, mut n_ids) = (0u64, 0u64, 0u64);
        for text in &c.texts {
            let occ = occurrences(text, &specials);
            let ambiguous = overlapping(&occ);
            let near = has_near_miss(text, &specials);
            let cluster = text.graphemes(true).any(|g| g.chars().count() > 1);
            let multibyte = !text.is_ascii();
            nontrivial |= cluster || (multibyte && (!occ.is_empty() || near));
            obs.tag_if(near, "near-miss");
            obs.tag_if(cluster, "multi-code-point-cluster");
            obs.tag_if(text.is_empty(), "empty-text");
            let over_alphabet = !is_byte && text.chars().all(|ch| alpha.contains_key(&ch));
            obs.tag_if(over_alphabet && !text.is_empty(), "char-text-over-alphabet");

            for ignore in [false, true] {
                let parse = !ignore;
                let judge_ids = !(parse && ambiguous);
                obs.tag(if ignore { "ignore-specials" } else { "parse-specials" });
                obs.tag_if(parse && ambiguous, "overlapping-specials-roundtrip-only");
                let segs = if parse && !ambiguous {
                    ref_split(text, &occ)
                } else if text.is_empty() {
                    vec![]
                } else {
                    vec![Seg::Reg(text.as_str())]
                };
                let nspec = segs.iter().filter(|s| matches!(s, Seg::Spec(_))).count();
                obs.tag_if(parse && nspec > 0, "special-parsed");
                n_parsed += if parse { nspec as u64 } else { 0 };

                let ids = match guarded(obs, &format!("{area}/tokenize"), || tok.tokenize(text, ignore)) {
                    Some(Ok(t)) => t.token_ids,
                    Some(Err(e)) => {
                        obs.fail(format!("{area}/tokenize-err"), format!("text {text:?} ignore={ignore}: {e}"));
                        continue;
                    }
                    None => continue,
                };
                n_ids += ids.len() as u64;
                if judge_ids {
                    let mut expected = pre.clone();
                    for seg in &segs {
                        match seg {
                            Seg::Spec(s) => expected.push(id_of[*s]),
                            Seg::Reg(r) if is_byte => expected.extend(r.bytes().map(u32::from)),
                            Seg::Reg(r) => {
                                for ch in chars_of(r, c.graphemes) {
                                    let mut it = ch.chars();
                                    let first = it.next();
                                    let id = match (first, it.next()) {
                                        (Some(f), None) => alpha.get(&f).copied(),
                                        _ => None,
                                    };
                                    if id.is_none() {
                                        n_unk += 1;
                                    }
                                    expected.push(id.unwrap_or(unk_id));
                                }
                            }
                        }
                    }
                    expected.extend_from_slice(&suf);
                    if ids != expected {
                        let part = if ids.len() != expected.len() {
                            "length"
                        } else {
                            mismatch_part(&ids, &pre, &suf)
                        };
                        obs.fail(
                            format!("{area}/ids/{part}"),
                            format!(
                                "text {text:?} ignore_special_tokens={ignore}: ids {ids:?} expected {expected:?}"
                            ),
                        );
                    }
                }
                // decode with special tokens kept
                let roundtrip_due = is_byte || over_alphabet;
                if roundtrip_due {
                    let want = format!("{pre_s}{text}{suf_s}");
                    match guarded(obs, &format!("{area}/de_tokenize"), || tok.de_tokenize(&ids, false)) {
                        Some(Ok(d)) => {
                            obs.check(d == want, &format!("{area}/roundtrip"), || {
                                format!(
                                    "text {text:?} ignore={ignore}: ids {ids:?} decode to {d:?}, expected {want:?}"
                                )
                            });
                        }
                        Some(Err(e)) => obs.fail(
                            format!("{area}/de_tokenize-err"),
                            format!("text {text:?} ignore={ignore} ids {ids:?}: {e}"),
                        ),
                        None => {}
                    }
                    if ids.len() >= pre.len() + suf.len() {
                        let body = &ids[pre.len()..ids.len() - suf.len()];
                        match guarded(obs, &format!("{area}/de_tokenize"), || tok.de_tokenize(body, false)) {
                            Some(Ok(d)) => {
                                obs.check(&d == text, &format!("{area}/roundtrip-body"), || {
                                    format!(
                                        "text {text:?} ignore={ignore}: body ids {body:?} decode to {d:?}"
                                    )
                                });
                            }
                            Some(Err(e)) => obs.fail(
                                format!("{area}/de_tokenize-err"),
                                format!("text {text:?} ignore={ignore} body ids {body:?}: {e}"),
                            ),
                            None => {}
                        }
                    }
                }
            }
        }
        obs.tag_if(n_unk > 0, "unk-mapped");
        obs.nontrivial_if(nontrivial);
        obs.add("tokenizations", 2 * c.texts.len() as u64);
        obs.add("special-tokens-parsed", n_parsed);
        obs.add("ids", n_ids);
        obs.note(json!({
            "kind": c.kind,
            "vocab_size": vocab.len(),
            "specials": specials.len(),
            "texts": c.texts.len(),
            "specials_parsed": n_parsed,
            "unk_ids_expected": n_unk,
            "ids": n_ids,
        }));
    }
}
