//! C14 — whitespace corruption changes only whitespace, stays clean and label-consistent, is a
//! deterministic function of (text, seed), and respects probability 0.
use crate::core::*;
use crate::gen::{self, chars_of, has_mixed_cluster, Flavor};
use rand::seq::IndexedRandom;
use rand::Rng as _;
use serde::{Deserialize, Serialize};
use serde_json::json;
use text_utils::data::preprocessing::{preprocessing, Part, PreprocessingFnConfig};
use text_utils::data::task::{train_task, TrainTaskConfig};
use text_utils::data::{TextDataInfo, TrainData, TrainTaskInput};
use text_utils::tokenization::{
    ByteGroups, ByteTokenizerConfig, GroupAggregation, SpecialConfig, TokenizeConfig,
    TokenizerConfig,
};
use text_utils::whitespace::{self, Operation};
use unicode_segmentation::UnicodeSegmentation;

pub struct C14;

#[derive(Serialize, Deserialize, Clone, Debug)]
pub struct Case {
    /// the text that gets corrupted
    pub text: String,
    /// content of the other part in the second run (must come back byte-identical)
    pub other: String,
    /// true: Part::Input is corrupted (the pipeline's use), false: Part::Target
    pub part_input: bool,
    pub iw: f64,
    pub dw: f64,
    pub graphemes: bool,
    pub seed: u64,
    /// special tokens the byte tokenizer of the task puts in front / at the end
    pub prefix: Vec<String>,
    pub suffix: Vec<String>,
    pub code_point_groups: bool,
    /// how the text was drawn (evidence only)
    pub text_kind: String,
}

const PROBS: &[f64] = &[0.0, 1e-9, 0.05, 0.1, 0.3, 0.5, 0.9, 1.0];
const SPECIALS: &[&str] = &["<bos>", "<eos>", "<unk>", "<pad>"];
/// characters that make extended grapheme cluster segmentation context dependent and that are
/// not in the shared pools: Prepend, SpacingMark, lone regional indicators, conjoining jamo
const EXOTIC: &[&str] = &["\u{600}", "\u{903}", "🇩", "🇪", "ᄀ", "\u{1161}", "\u{11a8}"];

fn strip_ws(s: &str) -> String {
    s.chars().filter(|c| !c.is_whitespace()).collect()
}

fn n_chars(s: &str, graphemes: bool) -> usize {
    if graphemes {
        s.graphemes(true).count()
    } else {
        s.chars().count()
    }
}

fn nonws_chars(s: &str, graphemes: bool) -> Vec<&str> {
    chars_of(s, graphemes)
        .into_iter()
        .filter(|c| !c.chars().any(char::is_whitespace))
        .collect()
}

/// reference for "whitespace-clean": written on code points only
fn is_clean(s: &str) -> bool {
    let mut prev_ws = true;
    for c in s.chars() {
        if c.is_whitespace() {
            if prev_ws || c != ' ' {
                return false;
            }
            prev_ws = true;
        } else {
            prev_ws = false;
        }
    }
    s.is_empty() || !prev_ws
}

/// code point alignment of two strings that differ only in whitespace:
/// Some((whitespace only in b, whitespace only in a)), None if something else differs
fn ws_diff(a: &str, b: &str) -> Option<(usize, usize)> {
    let a: Vec<char> = a.chars().collect();
    let b: Vec<char> = b.chars().collect();
    let (mut i, mut j, mut only_b, mut only_a) = (0, 0, 0, 0);
    while i < a.len() || j < b.len() {
        if i < a.len() && j < b.len() && a[i] == b[j] {
            i += 1;
            j += 1;
        } else if i < a.len() && a[i].is_whitespace() {
            only_a += 1;
            i += 1;
        } else if j < b.len() && b[j].is_whitespace() {
            only_b += 1;
            j += 1;
        } else {
            return None;
        }
    }
    Some((only_b, only_a))
}

fn tiny_clean_text(rng: &mut Rng, exotic: bool) -> String {
    let mut alpha: Vec<&str> = vec!["a", "b"];
    alpha.push(gen::MULTIBYTE.choose(rng).unwrap());
    if rng.random_bool(0.5) {
        alpha.push(gen::CLUSTERS.iter().filter(|c| **c != "\r\n").nth(rng.random_range(0..10)).unwrap());
    }
    if exotic {
        alpha.push(EXOTIC.choose(rng).unwrap());
        alpha.push(EXOTIC.choose(rng).unwrap());
    }
    let nw = rng.random_range(1..=8);
    (0..nw)
        .map(|_| {
            let n = rng.random_range(1..=6);
            (0..n).map(|_| *alpha.choose(rng).unwrap()).collect::<String>()
        })
        .collect::<Vec<_>>()
        .join(" ")
}

fn tok_cfg(c: &Case) -> TokenizerConfig {
    TokenizerConfig {
        tokenize: TokenizeConfig::Byte(ByteTokenizerConfig {
            use_graphemes: c.graphemes,
            pad_to_multiple_of: None,
            groups: if c.code_point_groups {
                ByteGroups::CodePoints
            } else {
                ByteGroups::Bytes
            },
            aggregation: GroupAggregation::Mean,
        }),
        special: SpecialConfig {
            prefix: c.prefix.clone(),
            suffix: c.suffix.clone(),
            ..SpecialConfig::default()
        },
    }
}

fn to_op(l: i32) -> Option<Operation> {
    match l {
        0 => Some(Operation::Keep),
        1 => Some(Operation::Insert),
        2 => Some(Operation::Delete),
        _ => None,
    }
}

impl Prop for C14 {
    type Case = Case;
    const ID: &'static str = "C14";

    fn lanes(tier: Tier) -> Vec<Lane> {
        vec![
            Lane::new("main", tier.pick(400_000, 10_000_000))
            .cap(tier.pick(120, 1200))
            .floor(tier.pick(20_000, 300_000)),
            // every length 10 / 50 / 250 times bigger (texts of up to 3000 words or words of up to
            // 2000 symbols)
            Lane::new("large", tier.pick(12_000, 200_000))
                .cap(tier.pick(150, 1200))
                .floor(tier.pick(800, 12_000)),
        ]
    }

    fn rule() -> &'static str {
        "clean texts: 50% gen::clean_text (words over all non-whitespace pools joined by single \
         spaces, grapheme-safe in grapheme mode), 45% 1-8 words of 1-6 symbols over a tiny alphabet \
         (a, b, a multi-byte letter, optionally a multi code point cluster; 10% of all cases: plus two \
         of Prepend / SpacingMark / lone regional indicator / lone jamo), 3% gen::clean_text without \
         the grapheme filter, 2% unrestricted strings; \
         iw, dw from {0, 1e-9, .05, .1, .3, .5, .9, 1} or uniform, never both 0; seeds incl. 0, 1, \
         2^32, 2^63, u64::MAX; x use_graphemes x Part (80% Input); byte tokenizer with 0-3 prefix \
         and 0-3 suffix special tokens, byte or code point groups. A text that is measured not to be \
         clean, or (grapheme mode) to contain a cluster mixing whitespace and non-whitespace, is \
         outside the quantifier: only no-panic is judged (tags `robustness-*`, counter \
         `filtered-outside-quantifier`). Each case runs the corruption three times (same function \
         twice, a separately built function with a different other part), operations/repair on the \
         result and the whitespace-correction task. non-trivial = the corruption inserted at least \
         one and deleted at least one whitespace (measured by an independent code point alignment)."
    }

    fn assumptions() -> Vec<&'static str> {
        vec![
            "code point / extended grapheme cluster segmentation is taken from std / unicode-segmentation in the oracle as in the repo (same crate version through the shared lock file)",
            "whitespace = char::is_whitespace (Unicode White_Space); clean = single U+0020 between words, none leading or trailing",
            "the label values are compared with whitespace::operations(input, target) of the repo (its correctness is C10) and, independently, repair(input, labels) must give the target",
            "grapheme mode: 'same non-whitespace character sequence' is judged on extended grapheme clusters; an output in which a cluster mixes whitespace and non-whitespace or whose clusters regrouped gets the signature corrupt/grapheme-resegmentation and the dependent checks are skipped for that case",
        ]
    }

    fn generate(rng: &mut Rng, _tier: Tier, _lane: &str) -> Case {
        let graphemes = rng.random_bool(0.5);
        let (text_kind, text) = match rng.random_range(0..100) {
            0..=49 => ("clean_text", gen::clean_text(rng, 12, graphemes)),
            50..=84 => ("tiny", tiny_clean_text(rng, false)),
            85..=94 => ("tiny-exotic", tiny_clean_text(rng, true)),
            95..=97 => ("clean_text-unfiltered", gen::clean_text(rng, 12, false)),
            _ => ("arbitrary", gen::ustring(rng, Flavor::Wild, 30)),
        };
        let f = gen::flavor(rng);
        let other = gen::ustring(rng, f, 20);
        let p = |rng: &mut Rng| {
            if rng.random_bool(0.75) {
                *PROBS.choose(rng).unwrap()
            } else {
                rng.random::<f64>()
            }
        };
        let mut iw = p(rng);
        let mut dw = p(rng);
        if iw == 0.0 && dw == 0.0 {
            if rng.random_bool(0.5) {
                iw = 0.3;
            } else {
                dw = 0.3;
            }
        }
        let seed = match rng.random_range(0..10) {
            0 => *[0, 1, 2, u64::MAX, u64::MAX - 1, 1 << 32, 1 << 63, (1 << 63) - 1]
                .choose(rng)
                .unwrap(),
            1 => rng.random_range(0..1000),
            _ => rng.random::<u64>(),
        };
        let specials = |rng: &mut Rng| -> Vec<String> {
            let n = *[0, 0, 1, 1, 2, 3].choose(rng).unwrap();
            (0..n)
                .map(|_| SPECIALS.choose(rng).unwrap().to_string())
                .collect()
        };
        let prefix = specials(rng);
        let suffix = specials(rng);
        Case {
            text,
            other,
            part_input: rng.random_bool(0.8),
            iw,
            dw,
            graphemes,
            seed,
            prefix,
            suffix,
            code_point_groups: rng.random_bool(0.3),
            text_kind: text_kind.to_string(),
        }
    }

    fn check(c: &Case, obs: &mut Obs) {
        // history round (core::history_round): the same inputs with `graphemes` flipped in between
        if history_round(
            c,
            obs,
            |c| {
                let mut v = c.clone();
                v.graphemes = !v.graphemes;
                v
            },
            Self::check,
        ) {
            return;
        }
        let g = c.graphemes;
        let part = || {
            if c.part_input {
                Part::Input
            } else {
                Part::Target
            }
        };
        let cfg = || PreprocessingFnConfig::WhitespaceCorruption(part(), c.iw, c.dw, g);
        let info = || TextDataInfo {
            seed: c.seed,
            ..Default::default()
        };
        let split = |d: &TrainData| -> (String, String) {
            // (corrupted part, untouched part)
            if c.part_input {
                (d.verif_input().to_string(), d.verif_target().to_string())
            } else {
                (d.verif_target().to_string(), d.verif_input().to_string())
            }
        };
        obs.tag(if g { "mode-graphemes" } else { "mode-code-points" });
        obs.tag(if c.part_input { "part-input" } else { "part-target" });

        let in_quantifier = is_clean(&c.text) && !(g && has_mixed_cluster(&c.text));
        let Some(f1) = guarded(obs, "preprocessing", || preprocessing(cfg())) else {
            return;
        };
        let Some(task) = guarded(obs, "train_task", || {
            train_task(TrainTaskConfig::WhitespaceCorrection(g, tok_cfg(c)))
        }) else {
            return;
        };
        let data = TrainData::new(c.text.clone(), None);

        if !in_quantifier {
            obs.tag(if is_clean(&c.text) {
                "robustness-mixed-cluster"
            } else {
                "robustness-not-clean"
            });
            obs.add("filtered-outside-quantifier", 1);
            if let Some(Ok((out, _))) = guarded(obs, "robustness/corrupt", || f1(data, info())) {
                let _ = guarded(obs, "robustness/task", || task(&out).is_ok());
            }
            return;
        }

        // ------------------------------------------------------------ corruption, run 1
        let out = match guarded(obs, "corrupt", || f1(data.clone(), info())) {
            Some(Ok((out, _))) => out,
            Some(Err(e)) => {
                obs.fail("corrupt/err", format!("{e}"));
                return;
            }
            None => return,
        };
        let (cor, untouched) = split(&out);
        obs.check(untouched == c.text, "corrupt/untouched-part-changed", || {
            format!("untouched part {untouched:?}, was {:?}", c.text)
        });

        // ------------------------------------------------------------ determinism
        if let Some(Ok((again, _))) = guarded(obs, "corrupt", || f1(data.clone(), info())) {
            let (cor2, _) = split(&again);
            obs.check(cor2 == cor, "corrupt/not-deterministic/same-function", || {
                format!("text {:?} seed {}: {cor:?} then {cor2:?}", c.text, c.seed)
            });
        }
        if let Some(f2) = guarded(obs, "preprocessing", || preprocessing(cfg())) {
            let data_b = if c.part_input {
                TrainData::new(c.text.clone(), Some(c.other.clone()))
            } else {
                TrainData::new(c.other.clone(), Some(c.text.clone()))
            };
            match guarded(obs, "corrupt", || f2(data_b, info())) {
                Some(Ok((out_b, _))) => {
                    let (cor_b, untouched_b) = split(&out_b);
                    obs.check(cor_b == cor, "corrupt/not-deterministic/second-function", || {
                        format!("text {:?} seed {}: {cor:?} vs {cor_b:?}", c.text, c.seed)
                    });
                    obs.check(untouched_b == c.other, "corrupt/untouched-part-changed", || {
                        format!("untouched part {untouched_b:?}, was {:?}", c.other)
                    });
                }
                Some(Err(e)) => obs.fail("corrupt/err", format!("{e}")),
                None => {}
            }
        }

        // ------------------------------------------------------------ only whitespace changed
        let diff = ws_diff(&c.text, &cor);
        let same_content = strip_ws(&cor) == strip_ws(&c.text) && diff.is_some();
        if !obs.check(same_content, "corrupt/non-whitespace-changed", || {
            format!("text {:?} -> {cor:?} (iw {} dw {} seed {} graphemes {g})", c.text, c.iw, c.dw, c.seed)
        }) {
            return;
        }
        let (inserted, deleted) = diff.unwrap_or((0, 0));
        obs.nontrivial_if(inserted >= 1 && deleted >= 1);
        obs.tag_if(inserted > 0, "inserted");
        obs.tag_if(deleted > 0, "deleted");
        obs.tag_if(cor == c.text, "unchanged");
        obs.tag_if(c.iw == 0.0, "iw-0");
        obs.tag_if(c.dw == 0.0, "dw-0");
        obs.tag_if(c.iw == 1.0, "iw-1");
        obs.tag_if(c.dw == 1.0, "dw-1");
        obs.tag_if(c.text.chars().any(|ch| ch.len_utf8() > 1), "multibyte");
        obs.tag_if(
            g && chars_of(&c.text, true).iter().any(|x| x.chars().count() > 1),
            "multi-code-point-cluster",
        );
        obs.tag_if(c.text.is_empty(), "empty-text");
        obs.add("whitespace-inserted", inserted as u64);
        obs.add("whitespace-deleted", deleted as u64);
        obs.note(json!({"corrupted": cor, "inserted": inserted, "deleted": deleted}));

        if c.dw == 0.0 {
            obs.check(deleted == 0, "corrupt/whitespace-disappeared-with-dw-0", || {
                format!("text {:?} -> {cor:?} (iw {} seed {} graphemes {g})", c.text, c.iw, c.seed)
            });
        }
        if c.iw == 0.0 {
            obs.check(inserted == 0, "corrupt/whitespace-appeared-with-iw-0", || {
                format!("text {:?} -> {cor:?} (dw {} seed {} graphemes {g})", c.text, c.dw, c.seed)
            });
        }
        obs.check(is_clean(&cor), "corrupt/output-not-clean", || {
            format!("text {:?} -> {cor:?} (iw {} dw {} seed {} graphemes {g})", c.text, c.iw, c.dw, c.seed)
        });
        if g && (has_mixed_cluster(&cor) || nonws_chars(&cor, true) != nonws_chars(&c.text, true)) {
            // what this means for the consumers (reported, not judged separately)
            let ops_err = catch(|| whitespace::operations(&cor, &c.text, g).is_err());
            let task_err = catch(|| task(&out).is_err());
            obs.fail(
                "corrupt/grapheme-resegmentation",
                format!(
                    "text {:?} -> {cor:?} (iw {} dw {} seed {}): clusters {:?} became {:?}; \
                     operations(corrupted, original) is_err = {ops_err:?}, task(item) is_err = {task_err:?}",
                    c.text,
                    c.iw,
                    c.dw,
                    c.seed,
                    chars_of(&c.text, true),
                    chars_of(&cor, true)
                ),
            );
            return;
        }

        // ------------------------------------------------------------ operations / repair
        match guarded(obs, "operations", || whitespace::operations(&cor, &c.text, g)) {
            Some(Ok(ops)) => {
                let n = n_chars(&cor, g);
                obs.check(ops.len() == n, "corrupt/operations-length", || {
                    format!("{} operations for {n} characters of {cor:?} (to {:?})", ops.len(), c.text)
                });
                match guarded(obs, "repair", || whitespace::repair(&cor, &ops, g)) {
                    Some(Ok(r)) => {
                        obs.check(r == c.text, "corrupt/repair-does-not-recover", || {
                            format!("repair({cor:?}, {ops:?}, {g}) = {r:?}, original {:?}", c.text)
                        });
                    }
                    Some(Err(e)) => obs.fail("corrupt/repair-err", format!("{e}")),
                    None => {}
                }
            }
            Some(Err(e)) => obs.fail(
                "corrupt/operations-err",
                format!("operations({cor:?}, {:?}, {g}) = Err({e})", c.text),
            ),
            None => {}
        }

        // ------------------------------------------------------------ task labels
        let (inp, tgt) = (out.verif_input().to_string(), out.verif_target().to_string());
        let (np, ns) = (c.prefix.len(), c.suffix.len());
        obs.tag_if(np > 0, "task-prefix");
        obs.tag_if(ns > 0, "task-suffix");
        match guarded(obs, "task", || task(&out)) {
            Some(Ok(TrainTaskInput::SequenceClassification { labels, .. })) => {
                let n = n_chars(&inp, g);
                if !obs.check(labels.len() == np + n + ns, "task/label-count", || {
                    format!(
                        "{} labels for {np} prefix + {n} characters + {ns} suffix, input {inp:?}: {labels:?}",
                        labels.len()
                    )
                }) {
                    return;
                }
                let ends_ok = labels[..np].iter().all(|l| *l == -1)
                    && labels[np + n..].iter().all(|l| *l == -1);
                obs.check(ends_ok, "task/prefix-suffix-labels", || {
                    format!("{np} prefix, {ns} suffix tokens: {labels:?}")
                });
                let mid = &labels[np..np + n];
                match guarded(obs, "operations", || whitespace::operations(&inp, &tgt, g)) {
                    Some(Ok(ops)) => {
                        let exp: Vec<i32> = ops.iter().map(|o| *o as i32).collect();
                        obs.check(mid == exp.as_slice(), "task/labels-not-operations", || {
                            format!("labels {mid:?}, operations({inp:?}, {tgt:?}, {g}) = {exp:?}")
                        });
                    }
                    Some(Err(e)) => obs.fail("task/operations-err", format!("{e}")),
                    None => {}
                }
                match mid.iter().map(|l| to_op(*l)).collect::<Option<Vec<_>>>() {
                    Some(lops) => {
                        if let Some(Ok(r)) = guarded(obs, "repair", || whitespace::repair(&inp, &lops, g)) {
                            obs.check(r == tgt, "task/labels-do-not-repair-input", || {
                                format!("repair({inp:?}, {mid:?}, {g}) = {r:?}, target {tgt:?}")
                            });
                        }
                    }
                    None => obs.fail(
                        "task/label-out-of-range",
                        format!("labels of the characters: {mid:?}"),
                    ),
                }
            }
            Some(Ok(other)) => obs.fail("task/wrong-variant", format!("{other:?}")),
            Some(Err(e)) => obs.fail(
                "task/err",
                format!("task on input {inp:?} target {tgt:?} graphemes {g}: {e}"),
            ),
            None => {}
        }
    }
}
