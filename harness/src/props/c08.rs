//! C08 — the training item stream is reproducible, shardable and resumable.
//!
//! Differential monitor over runs of the real (private) TrainLoader, driven through hook H3 exactly
//! as the Python binding drives it. Every case writes generated JSONL files and runs the loader
//! many times: a reference configuration (0 threads, buffer 1), thread/buffer variants with delay
//! injection at the loader's schedule points, a second identical loader in the same process and one
//! in a fresh process, all ranks of a world of size W, a limit=k / skip=k split, and
//! fast_forward(k) restarts. The streams are compared as lists / multisets of item fingerprints
//! (input, target, token ids, labels).
use crate::core::*;
use crate::sched::{self, Mode, Pt, RunEnd, Strategy};
use rand::seq::IndexedRandom;
use rand::Rng as _;
use serde::{Deserialize, Serialize};
use serde_json::json;
use std::collections::{BTreeMap, HashMap};
use std::path::{Path, PathBuf};
use text_utils::data::loading::{
    train_data_generator_from_jsonl, BatchLimitType, GenerationStrategy, MultiTrainDataGenerator,
};
use text_utils::data::postprocessing::PostprocessingFnConfig;
use text_utils::data::preprocessing::{Part, PreprocessingFnConfig, SpellingCorruptionMode};
use text_utils::data::task::TrainTaskConfig;
use text_utils::data::verif_loader::Handle;
use text_utils::data::{PostprocessingConfig, PreprocessingConfig, TrainPipelineConfig};
use text_utils::tokenization::{
    ByteGroups, ByteTokenizerConfig, CharTokenizerConfig, GroupAggregation, SpecialConfig,
    TokenizeConfig, TokenizerConfig,
};
use text_utils::unicode::Normalization;

pub struct C08;

#[derive(Serialize, Deserialize, Clone, Debug)]
pub enum Tok {
    Byte {
        g: bool,
        code_points: bool,
        prefix: Vec<String>,
        suffix: Vec<String>,
    },
    Char {
        g: bool,
        prefix: Vec<String>,
        suffix: Vec<String>,
    },
}

#[derive(Serialize, Deserialize, Clone, Debug)]
pub enum Pre {
    None,
    Clean(bool),
    Normalize(bool),
    WsCorrupt { iw: f64, dw: f64, g: bool },
    SpellArtificial { p: f64, full_delete: bool, char_p: f64, temp: f64, with_file: bool },
    SpellRealistic { p: f64 },
    SpellMixed { p: f64, art_p: f64, char_p: f64, temp: f64, with_file: bool },
    Switch(Vec<Pre>, Vec<f64>),
    Chain(Vec<Pre>),
    CharSub(usize, bool),
    ByteSub(usize, bool),
    Prefix(String),
    Suffix(String),
    /// target := input
    Overwrite,
    NoWs(bool),
    FullWs(bool),
    /// sets info.marks[key] = value (read by Post::OnMark / Post::SwitchOnMark)
    Mark(String, String),
}

#[derive(Serialize, Deserialize, Clone, Debug)]
pub enum Task {
    Ws { g: bool, tok: Tok },
    Gen { mask_input: bool, tok: Tok, ign: bool, sep: Option<String> },
    CondGen { tok_in: Tok, ign_in: bool, tok_out: Tok, ign_out: bool },
}

#[derive(Serialize, Deserialize, Clone, Debug)]
pub enum Post {
    None,
    Clip,
    Mask { tok: Tok, p: f64, min: usize, num_p: f64 },
    MaskThenClip { tok: Tok, p: f64, min: usize, num_p: f64 },
    SwitchMaskNone { tok: Tok, p: f64, min: usize, num_p: f64 },
    /// apply `inner` to the items whose mark `key` has the value `value`
    OnMark { key: String, value: String, inner: Box<Post> },
    /// apply posts[i] to the items whose mark `key` has the value values[i]
    SwitchOnMark { key: String, values: Vec<String>, posts: Vec<Post> },
}

#[derive(Serialize, Deserialize, Clone, Debug)]
pub struct Case {
    /// raw lines of each JSONL file
    pub files: Vec<Vec<String>>,
    pub char_file: Vec<String>,
    pub missp: BTreeMap<String, Vec<String>>,
    pub pre: Pre,
    /// non-empty: PreprocessingConfig::PerSource with one entry per file (overrides `pre`)
    #[serde(default)]
    pub pre_per_source: Vec<Pre>,
    pub task: Task,
    pub post: Post,
    /// 0 sequential, 1 interleaved, 2 weighted
    pub strategy: u8,
    pub seed: Option<u64>,
    pub epoch: usize,
    pub batch_limit: usize,
    pub padded: bool,
    pub shuffle: bool,
    pub sort: bool,
    pub prefetch: usize,
    pub max_length: usize,
    pub skip: usize,
    pub limit: Option<usize>,
    /// (threads, buffer size, chaos level) variants compared with the reference run
    pub variants: Vec<(u8, usize, u8)>,
    pub world: usize,
    pub split_k: usize,
    pub ff_k: Vec<usize>,
    pub fresh_process: bool,
    pub chaos_seed: u64,
    /// (threads, buffer size, strategy, seed): runs whose pipe workers, buffer thread and consumer
    /// are serialised by the schedule controller
    #[serde(default)]
    pub sched_variants: Vec<(u8, usize, Strategy, u64)>,
    /// history of one loader object (the trainer's flow: iter() to read min_items, load a
    /// checkpoint = set_epoch + set_fast_forward, iter() again, train)
    #[serde(default)]
    pub history: Vec<Op>,
    /// the files are written with CR LF line ends
    #[serde(default)]
    pub crlf: bool,
    #[serde(default)]
    pub two_loaders: bool,
}

/// operations on ONE loader object before its final `iter()` + full iteration
#[derive(Serialize, Deserialize, Clone, Debug)]
pub enum Op {
    Iter,
    /// pull up to this many batches
    Next(usize),
    SetEpoch(usize),
    SetFf(usize),
}

#[derive(Clone, Debug, PartialEq, Eq, Hash, PartialOrd, Ord, Serialize, Deserialize)]
pub struct Fp {
    /// (file, line) recovered from the tag in the target, if it survived preprocessing
    pub tag: Option<(usize, usize)>,
    pub hash: u64,
}

fn tok_cfg(t: &Tok) -> TokenizerConfig {
    match t {
        Tok::Byte {
            g,
            code_points,
            prefix,
            suffix,
        } => TokenizerConfig {
            tokenize: TokenizeConfig::Byte(ByteTokenizerConfig {
                use_graphemes: *g,
                pad_to_multiple_of: None,
                groups: if *code_points {
                    ByteGroups::CodePoints
                } else {
                    ByteGroups::Bytes
                },
                aggregation: GroupAggregation::Mean,
            }),
            special: SpecialConfig {
                prefix: prefix.clone(),
                suffix: suffix.clone(),
                ..SpecialConfig::default()
            },
        },
        Tok::Char { g, prefix, suffix } => TokenizerConfig {
            tokenize: TokenizeConfig::Character(CharTokenizerConfig {
                use_graphemes: *g,
                unk_token: "<unk>".to_string(),
            }),
            special: SpecialConfig {
                prefix: prefix.clone(),
                suffix: suffix.clone(),
                ..SpecialConfig::default()
            },
        },
    }
}

fn pre_cfg(p: &Pre, dir: &Path) -> PreprocessingFnConfig {
    let char_file = |with: bool| {
        if with {
            Some(dir.join("chars.txt"))
        } else {
            None
        }
    };
    match p {
        Pre::None => PreprocessingFnConfig::None,
        Pre::Clean(g) => PreprocessingFnConfig::Clean(Part::Input, *g),
        Pre::Normalize(g) => {
            PreprocessingFnConfig::Normalize(Part::Input, Normalization::NFKC, *g)
        }
        Pre::WsCorrupt { iw, dw, g } => {
            PreprocessingFnConfig::WhitespaceCorruption(Part::Input, *iw, *dw, *g)
        }
        Pre::SpellArtificial {
            p,
            full_delete,
            char_p,
            temp,
            with_file,
        } => PreprocessingFnConfig::SpellingCorruption(
            Part::Input,
            *p,
            *full_delete,
            SpellingCorruptionMode::Artificial(*char_p, *temp, char_file(*with_file)),
        ),
        Pre::SpellRealistic { p } => PreprocessingFnConfig::SpellingCorruption(
            Part::Input,
            *p,
            true,
            SpellingCorruptionMode::Realistic(dir.join("missp.json")),
        ),
        Pre::SpellMixed {
            p,
            art_p,
            char_p,
            temp,
            with_file,
        } => PreprocessingFnConfig::SpellingCorruption(
            Part::Input,
            *p,
            true,
            SpellingCorruptionMode::Mixed(
                *art_p,
                *char_p,
                *temp,
                char_file(*with_file),
                dir.join("missp.json"),
            ),
        ),
        Pre::Switch(ps, probs) => PreprocessingFnConfig::Switch(
            ps.iter().map(|p| pre_cfg(p, dir)).collect(),
            probs.clone(),
        ),
        Pre::Chain(ps) => {
            PreprocessingFnConfig::Chain(ps.iter().map(|p| pre_cfg(p, dir)).collect())
        }
        Pre::CharSub(n, g) => PreprocessingFnConfig::CharSubstring(*n, *g),
        Pre::ByteSub(n, g) => PreprocessingFnConfig::ByteSubstring(*n, *g),
        Pre::Prefix(s) => PreprocessingFnConfig::Prefix(Part::Input, s.clone()),
        Pre::Suffix(s) => PreprocessingFnConfig::Suffix(Part::Input, s.clone()),
        Pre::Overwrite => PreprocessingFnConfig::Overwrite(Part::Target),
        Pre::NoWs(g) => PreprocessingFnConfig::NoWhitespaces(Part::Input, *g),
        Pre::FullWs(g) => PreprocessingFnConfig::FullWhitespaces(Part::Input, *g),
        Pre::Mark(k, v) => PreprocessingFnConfig::Mark(k.clone(), v.clone()),
    }
}

fn has_substring(p: &Pre) -> bool {
    match p {
        Pre::CharSub(..) | Pre::ByteSub(..) => true,
        Pre::Switch(ps, _) | Pre::Chain(ps) => ps.iter().any(has_substring),
        _ => false,
    }
}

fn is_random(p: &Pre) -> bool {
    match p {
        Pre::WsCorrupt { .. }
        | Pre::SpellArtificial { .. }
        | Pre::SpellRealistic { .. }
        | Pre::SpellMixed { .. }
        | Pre::CharSub(..)
        | Pre::ByteSub(..)
        | Pre::Switch(..) => true,
        Pre::Chain(ps) => ps.iter().any(is_random),
        _ => false,
    }
}

fn task_cfg(t: &Task) -> TrainTaskConfig {
    match t {
        Task::Ws { g, tok } => TrainTaskConfig::WhitespaceCorrection(*g, tok_cfg(tok)),
        Task::Gen {
            mask_input,
            tok,
            ign,
            sep,
        } => TrainTaskConfig::Generation(*mask_input, tok_cfg(tok), *ign, sep.clone()),
        Task::CondGen {
            tok_in,
            ign_in,
            tok_out,
            ign_out,
        } => TrainTaskConfig::ConditionalGeneration(
            tok_cfg(tok_in),
            *ign_in,
            tok_cfg(tok_out),
            *ign_out,
        ),
    }
}

fn post_cfg(p: &Post) -> PostprocessingFnConfig {
    let mask = |tok: &Tok, p: f64, min: usize, num_p: f64| {
        PostprocessingFnConfig::TokenMasking(tok_cfg(tok), p, min, num_p, "<unk>".to_string())
    };
    match p {
        Post::None => PostprocessingFnConfig::None,
        Post::Clip => PostprocessingFnConfig::ClipLength,
        Post::Mask { tok, p, min, num_p } => mask(tok, *p, *min, *num_p),
        Post::MaskThenClip { tok, p, min, num_p } => PostprocessingFnConfig::Chain(vec![
            mask(tok, *p, *min, *num_p),
            PostprocessingFnConfig::ClipLength,
        ]),
        Post::SwitchMaskNone { tok, p, min, num_p } => PostprocessingFnConfig::Switch(
            vec![mask(tok, *p, *min, *num_p), PostprocessingFnConfig::None],
            vec![0.5, 0.5],
        ),
        Post::OnMark { key, value, inner } => {
            PostprocessingFnConfig::OnMark(key.clone(), value.clone(), vec![post_cfg(inner)])
        }
        Post::SwitchOnMark { key, values, posts } => PostprocessingFnConfig::SwitchOnMark(
            key.clone(),
            values.clone(),
            posts.iter().map(post_cfg).collect(),
        ),
    }
}

pub struct Files {
    pub dir: PathBuf,
    pub paths: Vec<String>,
}

pub fn write_files(c: &Case, uniq: &str) -> std::io::Result<Files> {
    let dir = std::env::temp_dir()
        .join(format!("tuverif-{}", std::process::id()))
        .join(format!("c08-{uniq}"));
    std::fs::create_dir_all(&dir)?;
    let mut paths = vec![];
    for (i, lines) in c.files.iter().enumerate() {
        let p = dir.join(format!("f{i}.jsonl"));
        let eol = if c.crlf { "\r\n" } else { "\n" };
        let mut s = lines.join(eol);
        if !lines.is_empty() {
            s.push_str(eol);
        }
        std::fs::write(&p, s)?;
        paths.push(p.display().to_string());
    }
    std::fs::write(dir.join("chars.txt"), c.char_file.join("\n") + "\n")?;
    std::fs::write(
        dir.join("missp.json"),
        serde_json::to_string(&c.missp).unwrap_or("{}".into()),
    )?;
    Ok(Files { dir, paths })
}

#[derive(Clone, Debug)]
pub struct Variant {
    pub threads: u8,
    pub buffer: usize,
    pub distributed: Option<(usize, usize)>,
    pub skip: usize,
    pub limit: Option<usize>,
    pub ff: usize,
    pub shuffle: bool,
    pub sort: bool,
    pub chaos: u8,
    pub sched: Option<(Strategy, u64)>,
    pub epoch: Option<usize>,
    /// operations applied to the loader before the final iter()
    pub history: Vec<Op>,
}

fn parse_tag(target: &str) -> Option<(usize, usize)> {
    // targets start with "t<file>x<line>q"
    let rest = target.strip_prefix('t')?;
    let x = rest.find('x')?;
    let q = rest.find('q')?;
    if q < x {
        return None;
    }
    Some((rest[..x].parse().ok()?, rest[x + 1..q].parse().ok()?))
}

/// one complete iteration of a freshly built loader; returns its batches as fingerprints
pub fn run_loader(
    c: &Case,
    files: &Files,
    v: &Variant,
) -> anyhow::Result<(Vec<Vec<Fp>>, Option<usize>)> {
    let s = sched::sched();
    if v.chaos > 0 {
        s.ensure_installed();
        s.set_chaos_all(c.chaos_seed ^ (v.threads as u64) << 8 ^ v.buffer as u64, v.chaos);
    } else {
        s.set_chaos_all(0, 0);
    }
    let mut h = build_handle(c, files, v)?;
    if let Some((strategy, sseed)) = &v.sched {
        return run_controlled(h, v, strategy, *sseed);
    }
    h.iter()?;
    let min_items = h.min_items();
    let mut batches = vec![];
    let mut guard = 0usize;
    while let Some((items, _tensors)) = h.next()? {
        batches.push(fingerprints(&items));
        guard += 1;
        if guard > 100_000 {
            anyhow::bail!("loader produced more than 100000 batches");
        }
    }
    s.set_chaos_all(0, 0);
    Ok((batches, min_items))
}

/// a freshly built loader in the configuration of the variant, with its history applied, not yet
/// iterated
pub fn build_handle(c: &Case, files: &Files, v: &Variant) -> anyhow::Result<Handle> {
    let pipeline = TrainPipelineConfig {
        preprocessing: if c.pre_per_source.is_empty() {
            PreprocessingConfig::Global(pre_cfg(&c.pre, &files.dir))
        } else {
            PreprocessingConfig::PerSource(
                c.pre_per_source
                    .iter()
                    .map(|p| pre_cfg(p, &files.dir))
                    .collect(),
            )
        },
        task: task_cfg(&c.task),
        postprocessing: PostprocessingConfig::Global(post_cfg(&c.post)),
    };
    let strategy = match c.strategy {
        0 => GenerationStrategy::Sequential,
        1 => GenerationStrategy::Interleaved,
        _ => GenerationStrategy::Weighted,
    };
    let mut h = Handle::from_files(
        files.paths.clone(),
        pipeline,
        strategy,
        v.threads,
        v.buffer,
        c.batch_limit,
        if c.padded {
            BatchLimitType::PaddedItemSize
        } else {
            BatchLimitType::BatchSize
        },
        c.max_length,
        v.shuffle,
        c.prefetch,
        v.sort,
        c.seed,
        v.skip,
        v.limit,
        v.distributed,
    )?;
    h.set_epoch(v.epoch.unwrap_or(c.epoch));
    h.set_fast_forward(v.ff);
    for op in &v.history {
        match op {
            Op::Iter => h.iter()?,
            Op::Next(n) => {
                for _ in 0..*n {
                    if h.next()?.is_none() {
                        break;
                    }
                }
            }
            Op::SetEpoch(e) => h.set_epoch(*e),
            Op::SetFf(k) => h.set_fast_forward(*k),
        }
    }
    Ok(h)
}

fn fingerprints(items: &[text_utils::data::TrainItem]) -> Vec<Fp> {
    items
        .iter()
        .map(|it| {
            let input = it.data.verif_input();
            let target = it.data.verif_target();
            Fp {
                tag: parse_tag(target),
                hash: hash64(&(input, target, format!("{:?}", it.input))),
            }
        })
        .collect()
}

pub const DEADLOCK_PREFIX: &str = "controlled-schedule deadlock";

/// iterate the loader with its pipe workers, its buffer thread and the consumer serialised at the
/// schedule points by the controller (the batched / tensorized layers run inside the buffer thread)
fn run_controlled(
    mut h: Handle,
    v: &Variant,
    strategy: &Strategy,
    sseed: u64,
) -> anyhow::Result<(Vec<Vec<Fp>>, Option<usize>)> {
    use std::sync::atomic::{AtomicBool, Ordering};
    use std::sync::{Arc, Mutex};
    let s = sched::sched();
    s.ensure_installed();
    s.set_chaos_all(0, 0);
    let w = v.threads as usize;
    s.reset(Mode::Controlled, w, true, (w + v.buffer).max(1));
    let done = Arc::new(AtomicBool::new(false));
    #[allow(clippy::type_complexity)]
    let result: Arc<Mutex<Option<anyhow::Result<(Vec<Vec<Fp>>, Option<usize>)>>>> =
        Arc::new(Mutex::new(None));
    let (s2, done2, result2) = (s.clone(), done.clone(), result.clone());
    let consumer = std::thread::Builder::new()
        .name("consumer".into())
        .spawn(move || {
            let r = (|| -> anyhow::Result<(Vec<Vec<Fp>>, Option<usize>)> {
                h.iter()?;
                let min_items = h.min_items();
                let mut batches = vec![];
                loop {
                    s2.consumer_point(Pt::ConsBeforeRecv, batches.len());
                    match h.next()? {
                        Some((items, _)) => {
                            batches.push(fingerprints(&items));
                            s2.consumer_point(Pt::ConsAfterRecvSome, batches.len());
                            if batches.len() > 100_000 {
                                anyhow::bail!("loader produced more than 100000 batches");
                            }
                        }
                        None => {
                            s2.consumer_point(Pt::ConsAfterRecvNone, batches.len());
                            break;
                        }
                    }
                }
                Ok((batches, min_items))
            })();
            *result2.lock().unwrap() = Some(r);
            s2.mark_exited(sched::CONSUMER);
            done2.store(true, Ordering::SeqCst);
        })?;
    let r = sched::control(&s, strategy, sseed, &done, 2_000_000);
    s.release_all();
    match r.end {
        RunEnd::Finished | RunEnd::Aborted => {
            let _ = consumer.join();
            result
                .lock()
                .unwrap()
                .take()
                .unwrap_or_else(|| Err(anyhow::anyhow!("consumer ended without a result")))
        }
        RunEnd::Deadlock(d) => Err(anyhow::anyhow!("{DEADLOCK_PREFIX}: {d}")),
        RunEnd::Diverged(d) => Err(anyhow::anyhow!("INCONCLUSIVE replay diverged: {d}")),
        RunEnd::Watchdog(d) => Err(anyhow::anyhow!("INCONCLUSIVE controller watchdog: {d}")),
    }
}

fn flat(b: &[Vec<Fp>]) -> Vec<Fp> {
    b.iter().flatten().cloned().collect()
}

fn multiset(v: &[Fp]) -> BTreeMap<Fp, usize> {
    let mut m = BTreeMap::new();
    for f in v {
        *m.entry(f.clone()).or_insert(0) += 1;
    }
    m
}

fn is_subsequence(sub: &[Fp], full: &[Fp]) -> bool {
    let mut i = 0;
    for f in full {
        if i < sub.len() && &sub[i] == f {
            i += 1;
        }
    }
    i == sub.len()
}

const WORDS: &[&str] = &[
    "the", "cat", "sat", "on", "mat", "a", "dog", "ran", "über", "straße", "naïve", "tree",
    "house", "is", "big", "small", "red", "blue", "and", "or", "not", "fast", "x", "yz",
];

fn gen_tok(rng: &mut Rng, allow_char: bool) -> Tok {
    let specials = ["<bos>", "<eos>", "<pad>", "<unk>"];
    let mut pick = |rng: &mut Rng| -> Vec<String> {
        (0..rng.random_range(0..=2))
            .map(|_| specials.choose(rng).unwrap().to_string())
            .collect()
    };
    let prefix = pick(rng);
    let suffix = pick(rng);
    if allow_char && rng.random_bool(0.3) {
        Tok::Char {
            g: rng.random_bool(0.5),
            prefix,
            suffix,
        }
    } else {
        Tok::Byte {
            g: rng.random_bool(0.5),
            code_points: rng.random_bool(0.3),
            prefix,
            suffix,
        }
    }
}

fn gen_ws(rng: &mut Rng) -> Pre {
    let ps = [0.0, 0.05, 0.2, 0.5, 1.0];
    loop {
        let iw = *ps.choose(rng).unwrap();
        let dw = *ps.choose(rng).unwrap();
        if iw > 0.0 || dw > 0.0 {
            return Pre::WsCorrupt {
                iw,
                dw,
                g: rng.random_bool(0.5),
            };
        }
    }
}

fn gen_spell(rng: &mut Rng) -> Pre {
    let p = *[0.2, 0.5, 1.0].choose(rng).unwrap();
    match rng.random_range(0..4) {
        0 | 1 => Pre::SpellArtificial {
            p,
            full_delete: rng.random_bool(0.5),
            char_p: *[0.1, 0.3, 0.8].choose(rng).unwrap(),
            temp: *[1.0, 2.0].choose(rng).unwrap(),
            with_file: rng.random_bool(0.8),
        },
        2 => Pre::SpellRealistic { p },
        _ => Pre::SpellMixed {
            p,
            art_p: 0.5,
            char_p: 0.3,
            temp: 2.0,
            with_file: rng.random_bool(0.8),
        },
    }
}

impl Prop for C08 {
    type Case = Case;
    const ID: &'static str = "C08";
    const RESETS_PANIC_HOOK: bool = true;

    fn lanes(tier: Tier) -> Vec<Lane> {
        vec![Lane::new("main", tier.pick(400, 16_000))
            .cap(tier.pick(240, 1500))
            // a wedged loader keeps its pipe workers spinning: a case that burns two CPU-minutes
            // (normal: well under a CPU-second) is reported as non-termination by the supervisor
            .hang(Some(120))
            .floor(tier.pick(40, 2_000)),
            // one file of 66 000 - 70 000 lines (one pipe beyond 2^16 items)
            Lane::new("long", tier.pick(2, 16))
                .cap(tier.pick(600, 1500))
                .hang(Some(600))
                .shards(2)
                .floor(1)]
    }

    fn rule() -> &'static str {
        "case = 1-3 generated JSONL files (0-40 lines each, unique tag per line, some unparsable lines \
         and lines without the input key), a pipeline (preprocessing from none / clean / normalize / \
         whitespace corruption / spelling corruption artificial (character 3-gram file with frequency \
         ties), realistic, mixed / switch / chain / char- and byte-substring / prefix / suffix; task \
         whitespace correction, generation, conditional generation over byte and char tokenizers; \
         postprocessing none / clip / token masking / chain / switch), strategy, seed, epoch, batch \
         limit and type, shuffle, sort, prefetch, skip, limit. Runs per case: reference (0 threads, \
         buffer 1) twice in-process (two separately built loaders) and optionally once in a fresh \
         process; 2-4 (threads, buffer) variants with delay injection at the loader's schedule \
         points -> identical batch lists; raw-order run (shuffle and sort off) -> same multiset; all \
         ranks of a world W in 2..=4 -> union multiset equals the single-process stream, each rank a \
         subsequence when unshuffled; one loader object with a history of iter / next / set_epoch / \
         set_fast_forward calls vs a fresh loader with the same final (epoch, fast_forward); limit=k / skip=k -> disjoint union equals the full stream; \
         fast_forward(k) -> the items with global index >= skip+k (global indices from the repo's own \
         generator for the same strategy and seed), same order when shuffle and sort are off. Items \
         are compared by fingerprint (input, target, token ids, labels), which also checks that every \
         global index is processed identically in every run. non-trivial = randomised preprocessing \
         or postprocessing active (lane long: more than 2^16 items in the stream), >= 2 batches in the \
         reference run and a variant with >= 2 threads. Lane long: one file of 66 000-70 000 lines, \
         cheap pipeline, variants with 4 and 2 threads, two ranks, split at n/2 and a fast-forward just \
         beyond item 2^16."
    }

    fn assumptions() -> Vec<&'static str> {
        vec![
            "fast_forward(k) is read as: the items of the uninterrupted stream with global index >= k (identical to 'after its first k' when shuffling is off)",
            "schedules of the three-layer loader (pipe -> batched -> buffered) are perturbed by thread counts, buffer sizes and delay injection, not serialised by a controller",
            "the global order of lines for a (strategy, seed) comes from the repo's MultiTrainDataGenerator (property C07)",
        ]
    }

    fn generate(rng: &mut Rng, tier: Tier, lane: &str) -> Case {
        if lane == "long" {
            // one epoch of one rank beyond 2^16 items: an ordinary case reduced to a cheap
            // pipeline over one file of 66 000 - 70 000 lines, compared between 0, 2 and 4 workers,
            // two ranks, and a fast-forward beyond item 2^16
            let mut c = Self::generate(rng, tier, "main");
            let n = rng.random_range(66_000..=70_000usize);
            c.files = vec![(0..n)
                .map(|l| {
                    let text = format!("t0x{l}q {}", WORDS.choose(rng).unwrap());
                    if l % 2 == 0 {
                        json!({ "input": text }).to_string()
                    } else {
                        json!({"input": text, "target": text}).to_string()
                    }
                })
                .collect()];
            c.pre = if rng.random_bool(0.5) { Pre::None } else { Pre::Clean(false) };
            c.pre_per_source = vec![];
            c.post = Post::None;
            c.strategy = 0;
            c.epoch = 0;
            c.batch_limit = *[16usize, 40, 200].choose(rng).unwrap();
            c.padded = false;
            c.shuffle = false;
            c.sort = false;
            c.prefetch = 1;
            c.max_length = 512;
            c.skip = 0;
            c.limit = None;
            c.variants = vec![(4, 3, 0), (2, 0, 0)];
            c.world = 2;
            c.split_k = n / 2;
            c.ff_k = vec![rng.random_range(65_530..=65_600)];
            c.fresh_process = false;
            c.two_loaders = false;
            c.history = vec![];
            c.sched_variants = vec![];
            return c;
        }
        let nfiles = rng.random_range(1..=3usize);
        let strategy = rng.random_range(0..3u8);
        let g_all = rng.random_bool(0.5);
        // task first: it decides which preprocessing keeps the items valid
        let task = match rng.random_range(0..10) {
            0..=4 => Task::Ws {
                g: g_all,
                tok: match gen_tok(rng, false) {
                    Tok::Byte {
                        code_points,
                        prefix,
                        suffix,
                        ..
                    } => Tok::Byte {
                        g: g_all,
                        code_points,
                        prefix,
                        suffix,
                    },
                    t => t,
                },
            },
            5..=7 => Task::Gen {
                mask_input: rng.random_bool(0.5),
                tok: gen_tok(rng, true),
                ign: rng.random_bool(0.5),
                sep: if rng.random_bool(0.5) {
                    Some(" => ".to_string())
                } else {
                    None
                },
            },
            _ => Task::CondGen {
                tok_in: gen_tok(rng, true),
                ign_in: rng.random_bool(0.5),
                tok_out: gen_tok(rng, true),
                ign_out: rng.random_bool(0.5),
            },
        };
        let ws_task = matches!(task, Task::Ws { .. });
        let marked = rng.random_range(0..9) == 0;
        let pre = match rng.random_range(0..13) {
            // two branches that leave a mark on the item (read by the postprocessing below)
            _ if marked => Pre::Switch(
                vec![
                    Pre::Chain(vec![gen_ws(rng), Pre::Mark("kind".to_string(), "ws".to_string())]),
                    Pre::Chain(vec![Pre::Clean(g_all), Pre::Mark("kind".to_string(), "plain".to_string())]),
                ],
                vec![0.5, 0.5],
            ),
            12 => Pre::Chain(vec![
                match rng.random_range(0..3) {
                    0 => Pre::NoWs(g_all),
                    1 => Pre::FullWs(g_all),
                    _ => Pre::Overwrite,
                },
                gen_ws(rng),
            ]),
            0 => Pre::None,
            1 => Pre::Clean(g_all),
            2..=4 => gen_ws(rng),
            5..=6 => {
                if ws_task && rng.random_bool(0.85) {
                    gen_ws(rng)
                } else {
                    gen_spell(rng)
                }
            }
            7 => Pre::Switch(vec![gen_ws(rng), Pre::None], vec![0.5, 0.5]),
            8 => Pre::Chain(vec![Pre::Normalize(g_all), gen_ws(rng)]),
            9 => Pre::Chain(vec![
                if rng.random_bool(0.5) {
                    Pre::CharSub(rng.random_range(4..30), g_all)
                } else {
                    Pre::ByteSub(rng.random_range(6..40), g_all)
                },
                gen_ws(rng),
            ]),
            10 => {
                if ws_task {
                    Pre::Switch(
                        vec![gen_ws(rng), gen_ws(rng), Pre::Clean(g_all)],
                        vec![0.3, 0.3, 0.4],
                    )
                } else {
                    Pre::Chain(vec![gen_spell(rng), Pre::Prefix("fix: ".to_string())])
                }
            }
            _ => {
                if ws_task {
                    gen_ws(rng)
                } else {
                    Pre::Switch(vec![gen_spell(rng), gen_ws(rng)], vec![0.6, 0.4])
                }
            }
        };
        let mask_tok = match &task {
            Task::Ws { tok, .. } | Task::Gen { tok, .. } => tok.clone(),
            Task::CondGen { tok_in, .. } => tok_in.clone(),
        };
        let mk_mask = |tok: &Tok| Post::Mask {
            tok: tok.clone(),
            p: 0.5,
            min: 1,
            num_p: 0.5,
        };
        let post = match rng.random_range(0..8) {
            _ if marked && rng.random_bool(0.5) => Post::SwitchOnMark {
                key: "kind".to_string(),
                values: vec!["ws".to_string(), "plain".to_string()],
                posts: vec![mk_mask(&mask_tok), Post::Clip],
            },
            _ if marked => Post::OnMark {
                key: "kind".to_string(),
                value: "ws".to_string(),
                inner: Box::new(mk_mask(&mask_tok)),
            },
            0..=3 => Post::None,
            4 => Post::Clip,
            5 => Post::Mask {
                tok: mask_tok,
                p: *[0.1, 0.3, 0.9].choose(rng).unwrap(),
                min: rng.random_range(1..=3),
                num_p: *[0.2, 0.5, 1.0].choose(rng).unwrap(),
            },
            6 => Post::MaskThenClip {
                tok: mask_tok,
                p: 0.3,
                min: 1,
                num_p: 0.5,
            },
            _ => Post::SwitchMaskNone {
                tok: mask_tok,
                p: 0.5,
                min: 2,
                num_p: 0.5,
            },
        };
        let mut files = vec![];
        for f in 0..nfiles {
            let min_lines = if strategy == 2 { 1 } else { 0 };
            let nlines = match rng.random_range(0..10) {
                0 => min_lines,
                1..=6 => rng.random_range(1..=12usize),
                _ => rng.random_range(12..=40usize),
            };
            let mut lines = vec![];
            for l in 0..nlines {
                match rng.random_range(0..25) {
                    0 => {
                        // lines that are not items: not JSON, JSON that is not an object, values
                        // of the wrong type, an empty line
                        let bad = [
                            "this is not json".to_string(),
                            json!({"input": 5}).to_string(),
                            json!({"input": format!("t{f}x{l}q bad target"), "target": 7}).to_string(),
                            "[1, 2]".to_string(),
                            "\"only a string\"".to_string(),
                            String::new(),
                        ];
                        lines.push(bad.choose(rng).unwrap().clone());
                        continue;
                    }
                    1 => {
                        lines.push(json!({"target": format!("t{f}x{l}q no input")}).to_string());
                        continue;
                    }
                    _ => {}
                }
                let nw = rng.random_range(1..=8);
                let mut words = vec![format!("t{f}x{l}q")];
                for _ in 0..nw {
                    words.push(WORDS.choose(rng).unwrap().to_string());
                }
                let text = words.join(" ");
                let line = if rng.random_bool(0.5) {
                    json!({ "input": text })
                } else {
                    json!({"input": text, "target": text})
                };
                lines.push(line.to_string());
            }
            files.push(lines);
        }
        // character 3-gram dictionary with frequency ties
        let letters = ["a", "e", "t", "s", "o", "x"];
        let mut char_file = vec![];
        for prev in ["<bow>", "a", "e", "t", "s", "o"] {
            for next in ["<eow>", "a", "e", "t", "s", "o"] {
                if rng.random_bool(0.7) {
                    for cur in letters {
                        if rng.random_bool(0.6) {
                            let f = *[5usize, 5, 5, 7, 10].choose(rng).unwrap();
                            char_file.push(format!("{prev} {cur} {next}\t{f}"));
                        }
                    }
                }
            }
        }
        if char_file.is_empty() {
            char_file.push("<bow> a <eow>\t5".to_string());
        }
        // per-source preprocessing: the source index reported by the generator selects the function
        // (not with marks: a per-source function that sets no mark makes SwitchOnMark panic by design)
        let pre_per_source: Vec<Pre> = if nfiles >= 2 && !marked && rng.random_bool(0.35) {
            (0..nfiles)
                .map(|i| match (i + rng.random_range(0..2usize)) % 3 {
                    0 => pre.clone(),
                    1 => {
                        if ws_task {
                            gen_ws(rng)
                        } else {
                            Pre::Prefix(format!("src{i}: "))
                        }
                    }
                    _ => {
                        if ws_task {
                            Pre::Clean(g_all)
                        } else {
                            Pre::Suffix(format!(" #{i}"))
                        }
                    }
                })
                .collect()
        } else {
            vec![]
        };
        let mut missp = BTreeMap::new();
        for w in WORDS {
            if rng.random_bool(0.5) {
                let alts: Vec<String> = (0..rng.random_range(1..=3))
                    .map(|i| format!("{w}{}", ["e", "z", "h"][i]))
                    .collect();
                missp.insert(w.to_string(), alts);
            }
        }
        let shuffle = rng.random_bool(0.4);
        let seed = if shuffle || rng.random_bool(0.7) {
            Some(rng.random_range(0..1_000_000u64))
        } else {
            None
        };
        let total: usize = files.iter().map(|f| f.len()).sum();
        let skip = if rng.random_bool(0.3) {
            rng.random_range(0..=(total / 3 + 1))
        } else {
            0
        };
        let limit = if rng.random_bool(0.3) {
            Some(rng.random_range(0..=total + 2))
        } else {
            None
        };
        let nvar = rng.random_range(2..=4);
        let variants = (0..nvar)
            .map(|_| {
                (
                    *[1u8, 2, 2, 3, 4, 8].choose(rng).unwrap(),
                    *[0usize, 1, 3, 16].choose(rng).unwrap(),
                    rng.random_range(0..=4u8),
                )
            })
            .collect();
        Case {
            files,
            char_file,
            missp,
            pre,
            pre_per_source,
            task,
            post,
            strategy,
            seed,
            epoch: rng.random_range(0..=3),
            batch_limit: *[1usize, 2, 3, 8, 40, 200].choose(rng).unwrap(),
            padded: rng.random_bool(0.5),
            shuffle,
            sort: rng.random_bool(0.3),
            prefetch: *[0usize, 1, 2, 7].choose(rng).unwrap(),
            max_length: *[8usize, 30, 512].choose(rng).unwrap(),
            skip,
            limit,
            variants,
            world: rng.random_range(2..=4),
            split_k: rng.random_range(0..=total + 1),
            ff_k: vec![rng.random_range(0..=total + 2), rng.random_range(0..=total / 2 + 1)],
            fresh_process: rng.random_range(0..8) == 0,
            chaos_seed: rng.random(),
            two_loaders: rng.random_bool(0.4),
            crlf: rng.random_range(0..6) == 0,
            history: if rng.random_bool(0.6) {
                (0..rng.random_range(1..=4))
                    .map(|_| match rng.random_range(0..8) {
                        0..=2 => Op::Iter,
                        3..=4 => Op::Next(rng.random_range(0..=3)),
                        5 => Op::SetEpoch(rng.random_range(0..=3)),
                        _ => Op::SetFf(rng.random_range(0..=total + 1)),
                    })
                    .collect()
            } else {
                vec![]
            },
            sched_variants: (0..rng.random_range(0..=2))
                .map(|_| {
                    let t = rng.random_range(0..=3u8);
                    (
                        t,
                        rng.random_range(0..=2usize),
                        match rng.random_range(0..6) {
                            0..=1 => Strategy::Random,
                            2 => Strategy::Burst,
                            3 => Strategy::Pct(rng.random_range(1..=3)),
                            4 => Strategy::ConsumerLast,
                            _ => Strategy::Starve(rng.random_range(0..=t + 1)),
                        },
                        rng.random(),
                    )
                })
                .collect(),
        }
    }

    fn check(c: &Case, obs: &mut Obs) {
        let uniq = format!("{:016x}", hash64(&serde_json::to_string(c).unwrap_or_default()));
        let files = match write_files(c, &uniq) {
            Ok(f) => f,
            Err(e) => {
                obs.inconclusive(format!("cannot write case files: {e}"));
                return;
            }
        };
        check_inner(c, &files, obs);
        let _ = std::fs::remove_dir_all(&files.dir);
    }
}

fn check_inner(c: &Case, files: &Files, obs: &mut Obs) {
    let base = Variant {
        threads: 0,
        buffer: 1,
        distributed: None,
        skip: c.skip,
        limit: c.limit,
        ff: 0,
        shuffle: c.shuffle,
        sort: c.sort,
        chaos: 0,
        sched: None,
        epoch: None,
        history: vec![],
    };
    let describe = |v: &Variant| {
        format!(
            "threads={} buffer={} distributed={:?} skip={} limit={:?} ff={} shuffle={} sort={} chaos={} sched={:?}",
            v.threads, v.buffer, v.distributed, v.skip, v.limit, v.ff, v.shuffle, v.sort, v.chaos, v.sched
        )
    };
    let mut runs = 0u64;
    let mut run = |v: &Variant, obs: &mut Obs| -> Option<Vec<Vec<Fp>>> {
        runs += 1;
        match run_loader(c, files, v) {
            Ok((b, _)) => Some(b),
            Err(e) => {
                let msg = e.to_string();
                if msg.starts_with(DEADLOCK_PREFIX) {
                    obs.fail("loader-deadlock", format!("{}: {msg}", describe(v)));
                    obs.poison();
                } else if msg.starts_with("INCONCLUSIVE") {
                    obs.inconclusive(format!("{}: {msg}", describe(v)));
                    obs.poison();
                } else {
                    obs.fail(
                        "loader-error",
                        format!("{}: loader returned an error: {e}", describe(v)),
                    );
                }
                None
            }
        }
    };
    // reference
    let Some(b0) = run(&base, obs) else { return };
    let f0 = flat(&b0);
    // fingerprints per tag: every global index must be processed identically in every run
    let mut by_tag: HashMap<(usize, usize), u64> = HashMap::new();
    for f in &f0 {
        if let Some(t) = f.tag {
            by_tag.insert(t, f.hash);
        }
    }
    let tags_ok = !has_substring(&c.pre) && !c.pre_per_source.iter().any(has_substring);
    let check_items = |fl: &[Fp], by_tag: &HashMap<(usize, usize), u64>, what: &str, obs: &mut Obs| {
        if !tags_ok {
            return;
        }
        for f in fl {
            if let Some(t) = f.tag {
                if let Some(h) = by_tag.get(&t) {
                    if *h != f.hash {
                        obs.fail(
                            "item-processed-differently",
                            format!(
                                "{what}: line {t:?} was processed differently than in the reference run"
                            ),
                        );
                        return;
                    }
                }
            }
        }
    };
    // 1. second loader in the same process, thread / buffer variants with delays
    let mut max_threads = 0;
    let mut all_variants = vec![base.clone()];
    for (t, b, ch) in &c.variants {
        all_variants.push(Variant {
            threads: *t,
            buffer: *b,
            chaos: *ch,
            ..base.clone()
        });
        max_threads = max_threads.max(*t);
    }
    for (t, b, strat, seed) in &c.sched_variants {
        all_variants.push(Variant {
            threads: *t,
            buffer: *b,
            chaos: 0,
            sched: Some((strat.clone(), *seed)),
            ..base.clone()
        });
        max_threads = max_threads.max(*t);
    }
    for v in &all_variants {
        let Some(b) = run(v, obs) else { return };
        if b != b0 {
            let sig = if v.threads == 0 && v.buffer == 1 {
                "rebuild-differs"
            } else {
                "variant-differs"
            };
            let same_items = multiset(&flat(&b)) == multiset(&f0);
            obs.fail(
                sig,
                format!(
                    "{}: batch list differs from the reference run ({} vs {} batches, {} vs {} items, same multiset of items: {same_items})",
                    describe(v),
                    b.len(),
                    b0.len(),
                    flat(&b).len(),
                    f0.len()
                ),
            );
            return;
        }
    }
    // fresh process
    if c.fresh_process {
        match fresh_process_hash(c) {
            Ok(h) => {
                obs.tag("fresh-process-run");
                obs.check(h == hash64(&b0), "fresh-process-differs", || {
                    "a loader built in a fresh process produced a different stream".to_string()
                });
            }
            Err(e) => obs.inconclusive(format!("fresh process run failed: {e}")),
        }
    }
    // raw order stream (shuffle and sort off): same items
    let raw = if c.shuffle || c.sort {
        let v = Variant {
            shuffle: false,
            sort: false,
            ..base.clone()
        };
        let Some(b) = run(&v, obs) else { return };
        let fr = flat(&b);
        obs.check(multiset(&fr) == multiset(&f0), "shuffle-changes-items", || {
            format!(
                "stream with shuffle={} sort={} has {} items, raw-order stream {}; multisets differ",
                c.shuffle,
                c.sort,
                f0.len(),
                fr.len()
            )
        });
        fr
    } else {
        f0.clone()
    };
    // global order of the lines from the repo's generator
    let order = global_order(c, files);
    // 3. sharding
    {
        let w = c.world;
        let mut union = vec![];
        for r in 0..w {
            let (t, b, ch) = c.variants[r % c.variants.len()];
            let v = Variant {
                threads: if r % 2 == 0 { t } else { 0 },
                buffer: b,
                chaos: ch,
                distributed: Some((r, w)),
                ..base.clone()
            };
            let Some(bb) = run(&v, obs) else { return };
            let fr = flat(&bb);
            check_items(&fr, &by_tag, &describe(&v), obs);
            if !c.shuffle && !c.sort {
                obs.check(is_subsequence(&fr, &f0), "rank-order", || {
                    format!("{}: rank stream is not a subsequence of the single-process stream", describe(&v))
                });
            }
            union.extend(fr);
        }
        let (mu, m0) = (multiset(&union), multiset(&f0));
        if mu != m0 {
            let dup = mu.iter().any(|(k, n)| m0.get(k).copied().unwrap_or(0) < *n);
            let lost = m0.iter().any(|(k, n)| mu.get(k).copied().unwrap_or(0) < *n);
            obs.fail(
                if dup && !lost {
                    "shards-overlap"
                } else if lost && !dup {
                    "shards-lose-items"
                } else {
                    "shards-differ"
                },
                format!(
                    "world {w}: union of the rank streams has {} items, single-process stream {} (skip={} limit={:?})",
                    union.len(),
                    f0.len(),
                    c.skip,
                    c.limit
                ),
            );
        }
    }
    // 4. limit = k / skip = k
    {
        let k = c.split_k;
        let full = Variant {
            skip: 0,
            limit: None,
            ..base.clone()
        };
        let a = Variant {
            skip: 0,
            limit: Some(k),
            ..base.clone()
        };
        let b = Variant {
            skip: k,
            limit: None,
            ..base.clone()
        };
        let (Some(bf), Some(ba), Some(bb)) = (run(&full, obs), run(&a, obs), run(&b, obs)) else {
            return;
        };
        let (ff, fa, fb) = (flat(&bf), flat(&ba), flat(&bb));
        let mut u = fa.clone();
        u.extend(fb.clone());
        obs.check(multiset(&u) == multiset(&ff), "split-not-a-partition", || {
            format!(
                "limit={k} gives {} items, skip={k} gives {}, full stream {}",
                fa.len(),
                fb.len(),
                ff.len()
            )
        });
        check_items(&fa, &by_tag, "limit=k run", obs);
        check_items(&fb, &by_tag, "skip=k run", obs);
    }
    // 5. fast forward
    for (i, &k) in c.ff_k.iter().enumerate() {
        let (t, b, ch) = c.variants[i % c.variants.len()];
        let v = Variant {
            threads: t,
            buffer: b,
            chaos: ch,
            ff: k,
            ..base.clone()
        };
        let Some(bb) = run(&v, obs) else { return };
        let fr = flat(&bb);
        check_items(&fr, &by_tag, &describe(&v), obs);
        if tags_ok {
            if let Some(order) = &order {
                // expected: items of the raw stream whose global index is >= skip + k
                let idx_of: HashMap<(usize, usize), usize> =
                    order.iter().enumerate().map(|(i, t)| (*t, i)).collect();
                let expected: Vec<Fp> = raw
                    .iter()
                    .filter(|f| {
                        f.tag
                            .and_then(|t| idx_of.get(&t))
                            .map(|gi| *gi >= c.skip + k)
                            .unwrap_or(false)
                    })
                    .cloned()
                    .collect();
                let untagged = raw.iter().filter(|f| f.tag.is_none()).count();
                if untagged == 0 {
                    if !c.shuffle && !c.sort {
                        obs.check(fr == expected, "fast-forward-order", || {
                            format!(
                                "{}: fast_forward({k}) gave {} items, expected the {} items with global index >= {} in order",
                                describe(&v), fr.len(), expected.len(), c.skip + k
                            )
                        });
                    } else {
                        obs.check(multiset(&fr) == multiset(&expected), "fast-forward-items", || {
                            format!(
                                "{}: fast_forward({k}) gave {} items, expected the {} items with global index >= {}",
                                describe(&v), fr.len(), expected.len(), c.skip + k
                            )
                        });
                    }
                }
            }
        } else if !c.shuffle && !c.sort && k == 0 {
            obs.check(fr == f0, "fast-forward-zero", || "fast_forward(0) changes the stream".to_string());
        }
    }
    // 7. two loaders alive at the same time (a training and a validation loader in one process),
    // consumed alternately: each must yield exactly what it yields alone
    if c.two_loaders {
        let (t, b, ch) = c.variants[0];
        let va = Variant { threads: t, buffer: b, chaos: ch, ..base.clone() };
        let vb = Variant {
            threads: if t > 1 { t - 1 } else { t + 1 },
            buffer: b,
            chaos: ch,
            skip: c.split_k,
            limit: None,
            ..base.clone()
        };
        let vb_ref = Variant { threads: 0, buffer: 1, chaos: 0, ..vb.clone() };
        let Some(bb_ref) = run(&vb_ref, obs) else { return };
        let both = (|| -> anyhow::Result<(Vec<Vec<Fp>>, Vec<Vec<Fp>>)> {
            let s = sched::sched();
            s.ensure_installed();
            s.set_chaos_all(c.chaos_seed ^ 0x77, ch);
            let mut ha = build_handle(c, files, &va)?;
            let mut hb = build_handle(c, files, &vb)?;
            ha.iter()?;
            hb.iter()?;
            let (mut oa, mut ob) = (vec![], vec![]);
            let (mut da, mut db) = (false, false);
            while !(da && db) {
                if !da {
                    match ha.next()? {
                        Some((items, _)) => oa.push(fingerprints(&items)),
                        None => da = true,
                    }
                }
                if !db {
                    match hb.next()? {
                        Some((items, _)) => ob.push(fingerprints(&items)),
                        None => db = true,
                    }
                }
                if oa.len() + ob.len() > 200_000 {
                    anyhow::bail!("more than 200000 batches");
                }
            }
            s.set_chaos_all(0, 0);
            Ok((oa, ob))
        })();
        match both {
            Ok((oa, ob)) => {
                obs.check(oa == b0, "two-loaders/first-differs", || {
                    format!("{}: consumed alternately with a second loader it yields {} batches instead of {}", describe(&va), oa.len(), b0.len())
                });
                obs.check(ob == bb_ref, "two-loaders/second-differs", || {
                    format!("{}: consumed alternately with another loader it yields {} batches instead of {}", describe(&vb), ob.len(), bb_ref.len())
                });
                obs.tag("two-loaders-alive");
            }
            Err(e) => obs.fail("two-loaders/error", format!("{e}")),
        }
    }
    // 6. history independence: after iter(), the stream depends only on the loader's current
    // (epoch, fast_forward), not on what was done with the object before
    if !c.history.is_empty() {
        let (mut ep, mut ff) = (c.epoch, 0usize);
        for op in &c.history {
            match op {
                Op::SetEpoch(e) => ep = *e,
                Op::SetFf(k) => ff = *k,
                _ => {}
            }
        }
        let (t, b, _) = c.variants[0];
        let used = Variant {
            threads: t,
            buffer: b,
            history: c.history.clone(),
            ..base.clone()
        };
        let fresh = Variant {
            epoch: Some(ep),
            ff,
            ..base.clone()
        };
        let (Some(bu), Some(bf)) = (run(&used, obs), run(&fresh, obs)) else {
            return;
        };
        obs.check(bu == bf, "history-dependent-stream", || {
            format!(
                "a loader with history {:?} yields {} batches / {} items after its final iter(); a fresh loader with epoch={ep} fast_forward={ff} yields {} / {}",
                c.history,
                bu.len(),
                flat(&bu).len(),
                bf.len(),
                flat(&bf).len()
            )
        });
        obs.tag("loader-history");
    }
    let randomised = is_random(&c.pre)
        || c.pre_per_source.iter().any(is_random)
        || !matches!(c.post, Post::None | Post::Clip);
    obs.tag_if(!c.pre_per_source.is_empty(), "pre-per-source");
    obs.tag_if(c.crlf, "crlf-line-ends");
    obs.tag_if(matches!(c.post, Post::OnMark { .. } | Post::SwitchOnMark { .. }), "marks-pre-to-post");
    // (long lane: more than 2^16 items through one pipe count as non-trivial as well)
    obs.nontrivial_if((randomised || flat(&b0).len() > 65_536) && b0.len() >= 2 && max_threads >= 2);
    obs.add("loader_runs", runs);
    obs.add("items_in_reference_stream", f0.len() as u64);
    obs.max("max_batches", b0.len() as u64);
    obs.tag_if(!c.sched_variants.is_empty(), "controlled-schedule-variant");
    obs.add("controlled_schedule_runs", c.sched_variants.len() as u64);
    obs.tag_if(c.shuffle, "shuffle");
    obs.tag_if(c.sort, "sort");
    obs.tag_if(c.seed.is_none(), "seed-none");
    obs.tag_if(c.skip > 0, "skip>0");
    obs.tag_if(c.limit.is_some(), "limit-set");
    obs.tag_if(f0.is_empty(), "empty-stream");
    obs.tag(match c.strategy {
        0 => "sequential",
        1 => "interleaved",
        _ => "weighted",
    });
    obs.tag(match c.task {
        Task::Ws { .. } => "task-whitespace-correction",
        Task::Gen { .. } => "task-generation",
        Task::CondGen { .. } => "task-conditional-generation",
    });
    obs.tag_if(has_substring(&c.pre), "pre-substring");
    obs.tag_if(
        format!("{:?}", c.pre).contains("Spell"),
        "pre-spelling-corruption",
    );
    obs.tag_if(format!("{:?}", c.pre).contains("WsCorrupt"), "pre-whitespace-corruption");
    obs.tag_if(format!("{:?}", c.pre).contains("Switch"), "pre-switch");
    obs.tag_if(!matches!(c.post, Post::None), "postprocessing");
    let total_lines: usize = c.files.iter().map(|f| f.len()).sum();
    obs.tag_if(f0.len() < total_lines && c.skip == 0 && c.limit.is_none(), "lines-dropped-by-errors");
    obs.note(json!({
        "reference_batches": b0.len(), "reference_items": f0.len(), "loader_runs": runs,
        "world": c.world, "split_k": c.split_k, "ff_k": c.ff_k,
    }));
}

/// (file, line) of every line in the global order of the generator for this strategy / seed
fn global_order(c: &Case, files: &Files) -> Option<Vec<(usize, usize)>> {
    let gens = files
        .paths
        .iter()
        .map(train_data_generator_from_jsonl)
        .collect::<anyhow::Result<Vec<_>>>()
        .ok()?;
    let strategy = match c.strategy {
        0 => GenerationStrategy::Sequential,
        1 => GenerationStrategy::Interleaved,
        _ => GenerationStrategy::Weighted,
    };
    let seed = c.seed.unwrap_or_default() + c.epoch as u64;
    let g = MultiTrainDataGenerator::new(gens, strategy, Some(seed)).ok()?;
    let mut next_line = vec![0usize; c.files.len()];
    let mut order = vec![];
    for (_, file_idx) in g {
        order.push((file_idx, next_line[file_idx]));
        next_line[file_idx] += 1;
    }
    Some(order)
}

fn fresh_process_hash(c: &Case) -> anyhow::Result<u64> {
    let exe = std::env::current_exe()?;
    let spec = serde_json::to_string(c)?;
    let out = std::process::Command::new(exe)
        .arg("child")
        .arg("C08")
        .arg(&spec)
        .stdin(std::process::Stdio::null())
        .stderr(std::process::Stdio::null())
        .output()?;
    if !out.status.success() {
        anyhow::bail!("child exit status {:?}", out.status);
    }
    let s = String::from_utf8_lossy(&out.stdout);
    let line = s
        .lines()
        .find(|l| l.starts_with("HASH "))
        .ok_or_else(|| anyhow::anyhow!("no HASH line"))?;
    Ok(u64::from_str_radix(line[5..].trim(), 16)?)
}

/// child: reference run of the case in a fresh process, prints the hash of its batch list
pub fn child(spec: &str) -> i32 {
    let Ok(c) = serde_json::from_str::<Case>(spec) else {
        return 5;
    };
    let Ok(files) = write_files(&c, "child") else {
        return 5;
    };
    let v = Variant {
        threads: 0,
        buffer: 1,
        distributed: None,
        skip: c.skip,
        limit: c.limit,
        ff: 0,
        shuffle: c.shuffle,
        sort: c.sort,
        chaos: 0,
        sched: None,
        epoch: None,
        history: vec![],
    };
    let r = run_loader(&c, &files, &v);
    let _ = std::fs::remove_dir_all(&files.dir);
    match r {
        Ok((b, _)) => {
            println!("HASH {:016x}", hash64(&b));
            0
        }
        Err(_) => 5,
    }
}
