//! C06 — batching partitions the item stream and respects the batch limit.
use crate::core::*;
use crate::gen;
use rand::seq::IndexedRandom;
use rand::Rng as _;
use serde::{Deserialize, Serialize};
use serde_json::json;
use text_utils::data::loading::{BatchLimitType, BatchedIterator, ItemSize};
use text_utils::utils::find_subsequences_of_max_size_k;

pub struct C06;

#[derive(Serialize, Deserialize, Clone, Debug)]
pub struct Case {
    /// item i has id i and size sizes[i]
    pub sizes: Vec<usize>,
    pub sort: bool,
    pub shuffle: bool,
    pub prefetch_factor: usize,
    pub batch_limit: usize,
    /// false: BatchLimitType::BatchSize, true: BatchLimitType::PaddedItemSize
    pub padded: bool,
    pub seed: u64,
    /// seed = None (OS entropy): everything but the determinism comparison is judged
    #[serde(default)]
    pub no_seed: bool,
    /// direct call of find_subsequences_of_max_size_k(values, k, size function)
    pub sub_values: Vec<usize>,
    pub sub_k: usize,
    /// 0: number of elements, 1: number of elements x largest element, 2: sum of the elements
    pub sub_fn: u8,
}

#[derive(Clone, Debug, PartialEq, Eq)]
struct It {
    id: usize,
    size: usize,
}

impl ItemSize for It {
    fn size(&self) -> usize {
        self.size
    }
}

/// cost of a group of item sizes under the limit type (the statement's "item count, or count
/// times largest item size")
fn cost(sizes: &[usize], padded: bool) -> usize {
    if padded {
        sizes.len() * sizes.iter().copied().max().unwrap_or(0)
    } else {
        sizes.len()
    }
}

/// reference greedy batcher for the plain mode: half-open index ranges into the input
fn ref_greedy(sizes: &[usize], limit: usize, padded: bool) -> Vec<(usize, usize)> {
    let mut out = vec![];
    let mut i = 0;
    while i < sizes.len() {
        let mut j = i + 1;
        while j < sizes.len() && cost(&sizes[i..=j], padded) <= limit {
            j += 1;
        }
        out.push((i, j));
        i = j;
    }
    out
}

fn sub_size(f: u8, w: &[usize]) -> usize {
    match f {
        0 => w.len(),
        1 => w.len() * w.iter().copied().max().unwrap_or(0),
        _ => w.iter().sum(),
    }
}

struct Run {
    batches: Vec<Vec<It>>,
    /// the iterator returned None (false: collection was cut off because more batches than items
    /// were produced)
    ended: bool,
    /// Some(..) results among the extra next() calls after the first None
    some_after_none: usize,
}

fn run(c: &Case) -> Run {
    let items: Vec<It> = c
        .sizes
        .iter()
        .enumerate()
        .map(|(id, size)| It { id, size: *size })
        .collect();
    let n = items.len();
    let mut it = items.into_iter().batched(
        c.sort,
        c.shuffle,
        c.prefetch_factor,
        c.batch_limit,
        if c.padded {
            BatchLimitType::PaddedItemSize
        } else {
            BatchLimitType::BatchSize
        },
        if c.no_seed { None } else { Some(c.seed) },
    );
    let mut batches = vec![];
    let mut ended = false;
    // a partition into non-empty batches has at most n batches: anything beyond proves an empty
    // batch or a duplicate, so the collection can stop (an endless stream would otherwise eat
    // memory; a loop *inside* next() is left to the supervisor's CPU budget)
    while batches.len() <= n + 1 {
        match it.next() {
            Some(b) => batches.push(b),
            None => {
                ended = true;
                break;
            }
        }
    }
    let mut some_after_none = 0;
    if ended {
        for _ in 0..3 {
            if it.next().is_some() {
                some_after_none += 1;
            }
        }
    }
    Run {
        batches,
        ended,
        some_after_none,
    }
}

fn ids(batches: &[Vec<It>]) -> Vec<Vec<usize>> {
    batches
        .iter()
        .map(|b| b.iter().map(|i| i.id).collect())
        .collect()
}

fn gen_sizes(rng: &mut Rng, limit: usize, tier: Tier) -> Vec<usize> {
    let n: usize = match rng.random_range(0..100) {
        // `large` lane: up to 100 000 items (beyond u16)
        _ if gen::scale() > 1 => rng.random_range(201..=gen::sc(400)),
        0..=2 => 0,
        3..=9 => rng.random_range(1..=3),
        10..=64 => rng.random_range(4..=40),
        65..=96 => rng.random_range(41..=200),
        // the thorough tier also runs long streams
        _ => rng.random_range(41..=tier.pick(200, 1000)),
    };
    let l = limit.max(1);
    // a scale for "ordinary" sizes, relative to the limit so that padded batches hold 1..many items
    let scale = *[1usize, 2, 3, 5, l / 8 + 1, l / 3 + 1, l / 2 + 1, l, l + 1]
        .choose(rng)
        .unwrap();
    match rng.random_range(0..9) {
        0 | 1 => (0..n).map(|_| rng.random_range(0..=scale)).collect(),
        2 => {
            let v = rng.random_range(0..=scale);
            vec![v; n]
        }
        3 => {
            let step = rng.random_range(1..=3);
            let off = rng.random_range(0..=2);
            (0..n).map(|i| off + i * step).collect()
        }
        4 => {
            let step = rng.random_range(1..=3);
            let off = rng.random_range(0..=2);
            (0..n).rev().map(|i| off + i * step).collect()
        }
        5 => {
            // one giant among tiny ones
            let mut v: Vec<usize> = (0..n).map(|_| rng.random_range(0..=2)).collect();
            if n > 0 {
                let i = rng.random_range(0..n);
                v[i] = l + rng.random_range(1..=100_000);
            }
            v
        }
        6 => (0..n).map(|_| rng.random_range(0..=1)).collect(),
        7 => {
            // ordinary sizes with oversize items sprinkled in
            let p = *[0.05, 0.15, 0.5, 1.0].choose(rng).unwrap();
            (0..n)
                .map(|_| {
                    if rng.random_bool(p) {
                        l + rng.random_range(1..=2 * l + 3)
                    } else {
                        rng.random_range(0..=scale)
                    }
                })
                .collect()
        }
        _ => {
            // few distinct values: many ties for the sort
            let k = rng.random_range(1..=3);
            let vals: Vec<usize> = (0..k).map(|_| rng.random_range(0..=scale)).collect();
            (0..n).map(|_| *vals.choose(rng).unwrap()).collect()
        }
    }
}

impl Prop for C06 {
    type Case = Case;
    const ID: &'static str = "C06";

    fn lanes(tier: Tier) -> Vec<Lane> {
        vec![
            Lane::new("main", tier.pick(2_000_000, 12_000_000))
                .cap(tier.pick(150, 1200))
                .floor(tier.pick(100_000, 600_000)),
            // streams of 201 - 100 000 items, limits and prefetch factors around 2^8 / 2^16 / 2^20
            Lane::new("large", tier.pick(3_000, 60_000))
                .cap(tier.pick(150, 1200))
                .floor(tier.pick(200, 4_000)),
        ]
    }

    fn rule() -> &'static str {
        "item streams of 0-200 items (thorough tier: 3% up to 1000; id = position, size from one of: uniform 0..scale, all-equal, \
         strictly increasing / decreasing, one giant among tiny, zeros and ones, oversize items \
         sprinkled in, few distinct values; scale is chosen relative to the limit) x sort x shuffle \
         x prefetch_factor in {0,1,2,7,32} x batch_limit in {0,1,2,3,8,64,257} (20%: 1..300) x \
         {BatchSize, PaddedItemSize} x Some(seed). Every case drains `.batched(..)` twice with the \
         same seed (then calls next() three more times) and judges: exactly-once over ids, no empty \
         batch, limit for batches with more than one item (limit = max(1, batch_limit)), None stays \
         None, identical batch lists of the two runs; without sort and shuffle additionally \
         concatenation == input and batch boundaries == an independent greedy reference. Every \
         case also calls find_subsequences_of_max_size_k on 0-24 values (60% sorted) with k in \
         {0,1,2,3,5,8,20,64} and a size function (count | count x max | sum) and checks that each \
         window is non-empty, in range, within k and maximal to the right. distinct = hash of the \
         case; non-trivial = at least 3 batches and (an item that alone exceeds the limit, or a \
         batch of more than one item that is not the last batch, i.e. one closed by the limit and \
         not by the end of the stream)."
    }

    fn assumptions() -> Vec<&'static str> {
        vec![
            "seed = None (OS entropy) is run in 2.5% of the cases: partition, limits and termination are judged as always, determinism only when shuffle is off (a violation found there may not replay)",
            "item sizes stay below 2^18 so that count x size cannot overflow usize; arithmetic overflow on absurd sizes is outside the workload",
            "the upstream is a fused iterator (vec::IntoIter), as in the loader",
            "an endless stream of batches is cut off after n+2 batches (then an empty batch or a duplicate is already proven); a loop inside one next() call is detected by the supervisor's CPU budget",
            "find_subsequences_of_max_size_k is judged only with size functions that are monotone under extension of the window (the only kind the batcher passes)",
        ]
    }

    fn generate(rng: &mut Rng, tier: Tier, _lane: &str) -> Case {
        let batch_limit = if gen::scale() > 1 && rng.random_bool(0.5) {
            *[255usize, 256, 1000, 4096, 65_535, 65_536, 70_000, 1 << 20].choose(rng).unwrap()
        } else if rng.random_bool(0.8) {
            *[0usize, 1, 2, 3, 8, 64, 257].choose(rng).unwrap()
        } else {
            rng.random_range(1..=300)
        };
        let sizes = gen_sizes(rng, batch_limit, tier);
        let (sort, shuffle) = match rng.random_range(0..10) {
            0..=2 => (false, false),
            3..=4 => (true, false),
            5..=6 => (false, true),
            _ => (true, true),
        };
        let prefetch_factor = if gen::scale() > 1 && rng.random_bool(0.4) {
            *[255usize, 256, 1000, 65_536].choose(rng).unwrap()
        } else {
            *[0usize, 1, 2, 7, 32].choose(rng).unwrap()
        };
        let mut sizes = sizes;
        if gen::scale() > 1 && (sort || shuffle) {
            // the repo re-sorts / re-shuffles the whole prefetch buffer for every batch: keep
            // buffer length x number of batches (<= items) below ~3e7 element visits
            let buffer = |n: usize| n.min(batch_limit.max(1).saturating_mul(prefetch_factor.max(1)) + 1);
            while buffer(sizes.len()) * sizes.len() > 30_000_000 {
                sizes.truncate(sizes.len() / 2);
            }
        }
        let padded = rng.random_bool(0.6);
        let seed = if rng.random_bool(0.2) {
            rng.random_range(0..4)
        } else {
            rng.random()
        };
        // direct call of the window search
        let m = rng.random_range(0..=gen::sc(24).min(3000));
        let hi = *[1usize, 2, 4, 9, 30].choose(rng).unwrap();
        let mut sub_values: Vec<usize> = (0..m).map(|_| rng.random_range(0..=hi)).collect();
        if rng.random_bool(0.6) {
            sub_values.sort();
        }
        let sub_k = if gen::scale() > 1 && rng.random_bool(0.5) {
            *[255usize, 256, 1000, 5000].choose(rng).unwrap()
        } else {
            *[0usize, 1, 2, 3, 5, 8, 20, 64].choose(rng).unwrap()
        };
        let sub_fn = rng.random_range(0..3);
        Case {
            sizes,
            sort,
            shuffle,
            prefetch_factor,
            batch_limit,
            padded,
            seed,
            no_seed: rng.random_range(0..40) == 0,
            sub_values,
            sub_k,
            sub_fn,
        }
    }

    fn check(c: &Case, obs: &mut Obs) {
        check_subsequences(c, obs);

        let n = c.sizes.len();
        let limit = c.batch_limit.max(1);
        let mode = match (c.sort, c.shuffle) {
            (false, false) => "plain",
            (true, false) => "sort",
            (false, true) => "shuffle",
            (true, true) => "sort+shuffle",
        };
        let ltype = if c.padded { "padded_item_size" } else { "batch_size" };
        obs.tag(match mode {
            "plain" => "mode:plain",
            "sort" => "mode:sort",
            "shuffle" => "mode:shuffle",
            _ => "mode:sort+shuffle",
        });
        obs.tag(if c.padded { "limit:padded_item_size" } else { "limit:batch_size" });
        let oversize = c.sizes.iter().filter(|s| cost(&[**s], c.padded) > limit).count();
        obs.tag_if(oversize > 0, "oversize-item");
        obs.tag_if(n > 0 && oversize == n, "all-items-oversize");
        obs.tag_if(c.padded && c.sizes.contains(&0), "zero-size-item");
        obs.tag_if(n >= 2 && c.sizes.iter().all(|s| *s == c.sizes[0]), "all-equal-sizes");
        obs.tag_if(c.batch_limit == 0, "batch_limit=0");
        obs.tag_if(c.prefetch_factor == 0, "prefetch_factor=0");
        obs.tag_if(n == 0, "empty-input");
        obs.tag_if(n == 1, "single-item");

        let Some(r) = guarded(obs, &format!("batched/{mode}"), || run(c)) else {
            return;
        };
        let b = &r.batches;
        let describe = || {
            format!(
                "mode={mode} limit={limit} ({ltype}) prefetch={} sizes={:?} batches(ids)={:?}",
                c.prefetch_factor,
                c.sizes,
                ids(b)
            )
        };
        // (4) termination of the stream of batches, None stays None
        if !r.ended {
            obs.fail(
                format!("batched/{mode}/more-batches-than-items"),
                format!("no None after {} batches for {n} items; {}", b.len(), describe()),
            );
        }
        obs.check(
            r.some_after_none == 0,
            &format!("batched/{mode}/some-after-none"),
            || format!("{} of 3 next() calls after None returned a batch; {}", r.some_after_none, describe()),
        );
        // (1) exactly once
        let mut seen = vec![0usize; n];
        let mut foreign = false;
        for it in b.iter().flatten() {
            if it.id < n && it.size == c.sizes[it.id] {
                seen[it.id] += 1;
            } else {
                foreign = true;
            }
        }
        obs.check(!foreign, &format!("batched/{mode}/foreign-item"), describe);
        let lost: Vec<usize> = (0..n).filter(|i| seen[*i] == 0).collect();
        let dup: Vec<usize> = (0..n).filter(|i| seen[*i] > 1).collect();
        obs.check(lost.is_empty(), &format!("batched/{mode}/item-lost"), || {
            format!("ids never emitted: {lost:?}; {}", describe())
        });
        obs.check(dup.is_empty(), &format!("batched/{mode}/item-duplicated"), || {
            format!("ids emitted more than once: {dup:?}; {}", describe())
        });
        // (2) no empty batch
        obs.check(
            b.iter().all(|x| !x.is_empty()),
            &format!("batched/{mode}/empty-batch"),
            describe,
        );
        // (3) limit for batches with more than one item
        for (k, batch) in b.iter().enumerate() {
            if batch.len() > 1 {
                let s: Vec<usize> = batch.iter().map(|i| i.size).collect();
                let v = cost(&s, c.padded);
                obs.check(v <= limit, &format!("batched/{mode}/limit-exceeded/{ltype}"), || {
                    format!("batch {k} has {} items, cost {v} > {limit}; {}", s.len(), describe())
                });
            }
        }
        // (5) deterministic function of the seed
        obs.tag_if(c.no_seed, "seed-none");
        if let Some(r2) = guarded(obs, &format!("batched/{mode}"), || run(c)) {
            obs.check(
                (c.no_seed && c.shuffle) || (ids(&r2.batches) == ids(b) && r2.ended == r.ended),
                &format!("batched/{mode}/not-deterministic"),
                || format!("second run with seed {} gave {:?}; first: {}", c.seed, ids(&r2.batches), describe()),
            );
        }
        // (6) plain mode: input order, greedy-maximal
        if !c.sort && !c.shuffle {
            let flat: Vec<usize> = b.iter().flatten().map(|i| i.id).collect();
            let in_order = flat.iter().copied().eq(0..n);
            obs.check(in_order, "batched/plain/order", describe);
            if in_order {
                let mut got = vec![];
                let mut at = 0;
                for batch in b {
                    got.push((at, at + batch.len()));
                    at += batch.len();
                }
                let want = ref_greedy(&c.sizes, limit, c.padded);
                obs.check(got == want, "batched/plain/not-greedy", || {
                    format!("batch ranges {got:?}, greedy reference {want:?}; {}", describe())
                });
            }
        }
        let closed_by_limit = b
            .iter()
            .take(b.len().saturating_sub(1))
            .filter(|x| x.len() > 1)
            .count();
        obs.nontrivial_if(b.len() >= 3 && (oversize > 0 || closed_by_limit > 0));
        obs.tag_if(closed_by_limit > 0, "batch-closed-by-limit");
        obs.tag_if(b.len() >= 3, "batches>=3");
        obs.add("batches", b.len() as u64);
        obs.add("items", n as u64);
        obs.max("max-batches", b.len() as u64);
        obs.max("max-batch-len", b.iter().map(|x| x.len()).max().unwrap_or(0) as u64);
        obs.note(json!({
            "mode": mode,
            "batches": b.len(),
            "oversize_items": oversize,
            "multi_item_batches_closed_by_limit": closed_by_limit,
            "largest_batch": b.iter().map(|x| x.len()).max().unwrap_or(0),
        }));
    }
}

fn check_subsequences(c: &Case, obs: &mut Obs) {
    let v = &c.sub_values;
    let (k, f) = (c.sub_k, c.sub_fn);
    let fname = match f {
        0 => "count",
        1 => "count*max",
        _ => "sum",
    };
    let Some(subs) = guarded(obs, "find_subsequences", || {
        find_subsequences_of_max_size_k(v, k, |w| sub_size(f, w))
    }) else {
        return;
    };
    let describe = || format!("values={v:?} k={k} size_fn={fname} returned={subs:?}");
    for &(s, e) in &subs {
        if !obs.check(s < e && e <= v.len(), "find_subsequences/empty-or-out-of-range", || {
            format!("window ({s},{e}); {}", describe())
        }) {
            continue;
        }
        obs.check(sub_size(f, &v[s..e]) <= k, "find_subsequences/window-exceeds-k", || {
            format!("window ({s},{e}) has size {}; {}", sub_size(f, &v[s..e]), describe())
        });
        obs.check(
            e == v.len() || sub_size(f, &v[s..=e]) > k,
            "find_subsequences/not-right-maximal",
            || format!("window ({s},{e}) can be extended by one element; {}", describe()),
        );
    }
    obs.tag_if(subs.is_empty(), "subseq:none");
    obs.tag_if(subs.len() >= 2, "subseq:several-windows");
    obs.tag_if(subs.iter().any(|(s, e)| *e >= s + 2 && *e < v.len()), "subseq:window-closed-by-k");
    obs.tag_if(!v.windows(2).all(|w| w[0] <= w[1]), "subseq:unsorted-values");
    obs.add("subseq-windows", subs.len() as u64);
}
