//! C18 — word matching is a longest common subsequence; edited words are its complement.
use crate::core::*;
use crate::gen;
use rand::seq::IndexedRandom;
use rand::Rng as _;
use serde::{Deserialize, Serialize};
use serde_json::json;
use std::collections::{BTreeSet, HashMap};
use text_utils::edit::edited_words;
use text_utils::text::match_words;

pub struct C18;

#[derive(Serialize, Deserialize, Clone, Debug)]
pub struct Case {
    pub a: String,
    pub b: String,
    pub ignore_case: bool,
}

/// lower-case base words; every letter has a 1:1 case mapping (ascii, ä/ö/ü)
const BASE: &[&str] = &[
    "a", "b", "c", "the", "is", "ab", "ba", "ä", "öl", "für", "x1", "no.", "a-b", "test",
];
const SEPS: &[char] = &[' ', '\t', '\n'];

fn is_sep(c: char) -> bool {
    c == ' ' || c == '\t' || c == '\n'
}

/// the oracle's own case folding for the generated alphabet
fn fold(c: char) -> char {
    match c {
        'A'..='Z' => c.to_ascii_lowercase(),
        'Ä' => 'ä',
        'Ö' => 'ö',
        'Ü' => 'ü',
        _ => c,
    }
}

fn raise(c: char) -> char {
    match c {
        'a'..='z' => c.to_ascii_uppercase(),
        'ä' => 'Ä',
        'ö' => 'Ö',
        'ü' => 'Ü',
        _ => c,
    }
}

fn in_alphabet(c: char) -> bool {
    (c.is_ascii() && !c.is_ascii_control() && c != ' ') || "äöüÄÖÜ".contains(c)
}

/// 0 = as is, 1 = Capitalised, 2 = UPPER, 3 = last letter raised
fn variant(w: &str, v: u32) -> String {
    let n = w.chars().count();
    w.chars()
        .enumerate()
        .map(|(i, c)| match v {
            1 if i == 0 => raise(c),
            2 => raise(c),
            3 if i + 1 == n => raise(c),
            _ => c,
        })
        .collect()
}

/// words of a text by an explicit scan (not `split_ascii_whitespace`)
fn words_of(s: &str) -> Vec<&str> {
    let mut out = vec![];
    let mut start: Option<usize> = None;
    for (i, c) in s.char_indices() {
        match (is_sep(c), start) {
            (true, Some(b)) => {
                out.push(&s[b..i]);
                start = None;
            }
            (false, None) => start = Some(i),
            _ => {}
        }
    }
    if let Some(b) = start {
        out.push(&s[b..]);
    }
    out
}

fn same(x: &str, y: &str, ignore_case: bool) -> bool {
    if ignore_case {
        x.chars().map(fold).eq(y.chars().map(fold))
    } else {
        x == y
    }
}

/// reference LCS length: suffix formulation, top-down with memo
struct Lcs<'a> {
    a: &'a [&'a str],
    b: &'a [&'a str],
    ic: bool,
    memo: HashMap<(usize, usize), usize>,
}

impl Lcs<'_> {
    /// LCS of a[i..] and b[j..]
    fn l(&mut self, i: usize, j: usize) -> usize {
        if i >= self.a.len() || j >= self.b.len() {
            return 0;
        }
        if let Some(v) = self.memo.get(&(i, j)) {
            return *v;
        }
        let v = if same(self.a[i], self.b[j], self.ic) {
            // taking an equal head pair is always optimal
            1 + self.l(i + 1, j + 1)
        } else {
            self.l(i + 1, j).max(self.l(i, j + 1))
        };
        self.memo.insert((i, j), v);
        v
    }
}

fn ref_lcs(a: &[&str], b: &[&str], ic: bool) -> usize {
    if a.len() * b.len() > 4096 {
        // `large` lane: the same suffix recurrence bottom-up over a full table (no recursion)
        let (n, m) = (a.len(), b.len());
        let w = m + 1;
        let mut t = vec![0u32; (n + 1) * w];
        for i in (0..n).rev() {
            for j in (0..m).rev() {
                t[i * w + j] = if same(a[i], b[j], ic) {
                    1 + t[(i + 1) * w + j + 1]
                } else {
                    t[(i + 1) * w + j].max(t[i * w + j + 1])
                };
            }
        }
        return t[0] as usize;
    }
    Lcs {
        a,
        b,
        ic,
        memo: HashMap::new(),
    }
    .l(0, 0)
}

/// greedy left-to-right matching: every word of a takes the first still available equal word of b
fn greedy(a: &[&str], b: &[&str], ic: bool) -> usize {
    let mut cursor = 0usize;
    let mut k = 0usize;
    for x in a {
        if let Some(p) = (cursor..b.len()).find(|&p| same(x, b[p], ic)) {
            cursor = p + 1;
            k += 1;
        }
    }
    k
}

fn sep_run(rng: &mut Rng) -> String {
    let n = if rng.random_bool(0.7) { 1 } else { rng.random_range(2..=4) };
    (0..n).map(|_| *SEPS.choose(rng).unwrap_or(&' ')).collect()
}

fn join(rng: &mut Rng, words: &[String]) -> String {
    let mut s = String::new();
    if rng.random_bool(0.25) {
        s.push_str(&sep_run(rng));
    }
    for (i, w) in words.iter().enumerate() {
        if i > 0 {
            s.push_str(&sep_run(rng));
        }
        s.push_str(w);
    }
    if rng.random_bool(0.25) {
        s.push_str(&sep_run(rng));
    }
    s
}

fn gen_word(rng: &mut Rng, vocab: &[&str], p_case: f64) -> String {
    let w = vocab.choose(rng).copied().unwrap_or("a");
    if rng.random_bool(p_case) {
        variant(w, rng.random_range(1..=3))
    } else {
        w.to_string()
    }
}

impl Prop for C18 {
    type Case = Case;
    const ID: &'static str = "C18";

    fn lanes(tier: Tier) -> Vec<Lane> {
        vec![
            Lane::new("main", tier.pick(4_000_000, 60_000_000))
                .cap(tier.pick(150, 1200))
                .floor(tier.pick(20_000, 1_000_000)),
            // sequences of 100 - 1100 words (common subsequences beyond 2^8), b independent or a
            // with up to |a|/25 edits; reference bottom-up above 4096 table cells
            Lane::new("large", tier.pick(6_000, 120_000))
                .cap(tier.pick(150, 1200))
                .floor(tier.pick(400, 8_000)),
        ]
    }

    fn rule() -> &'static str {
        "pairs of word sequences over 2-4 distinct base words (ascii and ä/ö/ü letters, digits, \
         punctuation) with case variants (Capitalised, UPPER, last letter raised; probability 0, 0.25 or \
         0.5 per word), lengths 0-10 (3%: 11-30); b is independent of a (40%) or a mutation of a (word \
         deletions, insertions, replacements, adjacent swaps, case changes, block rotation); words \
         joined by runs of 1-4 of space/tab/newline with optional leading / trailing runs; x ignore_case. \
         Reference: memoised top-down suffix LCS over words split by an explicit scan, own case folding. \
         distinct = hash of the case; non-trivial = LCS >= 2 and the greedy left-to-right matching is \
         shorter than the LCS."
    }

    fn assumptions() -> Vec<&'static str> {
        vec![
            "inputs contain only space, tab and newline as whitespace (the implementation splits on ASCII whitespace; other White_Space characters are outside this property's inputs)",
            "case-insensitive equality is judged with the oracle's own folding on an alphabet whose case mapping is 1:1 (ascii, ä/ö/ü); a replayed case with other characters is reported inconclusive for ignore_case",
            "'that matching' in the edited_words clause is the result of match_words(a, b, false); additionally the sizes of the edited sets are checked against the reference LCS",
        ]
    }

    fn generate(rng: &mut Rng, _tier: Tier, _lane: &str) -> Case {
        let k = rng.random_range(2..=4);
        let mut vocab: Vec<&str> = vec![];
        while vocab.len() < k {
            let w = BASE.choose(rng).copied().unwrap_or("a");
            if !vocab.contains(&w) {
                vocab.push(w);
            }
        }
        // `large` lane: sequences of 100 - 1100 words, half of the cases over a bigger vocabulary
        // (numbered words) so that long common subsequences need the right alignment
        let numbered: Vec<String> = if gen::scale() > 1 && rng.random_bool(0.5) {
            let kk = *[10usize, 50, 400].choose(rng).unwrap_or(&50);
            (0..kk).map(|i| format!("{}{i}", BASE.choose(rng).copied().unwrap_or("w"))).collect()
        } else {
            vec![]
        };
        if !numbered.is_empty() {
            vocab = numbered.iter().map(|s| s.as_str()).collect();
        }
        let p_case = *[0.0, 0.25, 0.5].choose(rng).unwrap_or(&0.25);
        let len = |rng: &mut Rng| -> usize {
            match rng.random_range(0..100) {
                _ if gen::scale() > 1 => rng.random_range(100..=100 + gen::sc(4)),
                0..=2 => rng.random_range(11..=30),
                3..=7 => 0,
                _ => rng.random_range(1..=10),
            }
        };
        let na = len(rng);
        let a: Vec<String> = (0..na).map(|_| gen_word(rng, &vocab, p_case)).collect();
        let b: Vec<String> = if rng.random_range(0..10) < 4 {
            let nb = len(rng);
            (0..nb).map(|_| gen_word(rng, &vocab, p_case)).collect()
        } else {
            let mut b = a.clone();
            let edits = rng.random_range(0..=4.max(b.len() / 25));
            for _ in 0..edits {
                let n = b.len();
                match rng.random_range(0..6) {
                    0 if n >= 1 => {
                        let i = rng.random_range(0..n);
                        b.remove(i);
                    }
                    1 => {
                        let i = rng.random_range(0..=n);
                        b.insert(i, gen_word(rng, &vocab, p_case));
                    }
                    2 if n >= 1 => {
                        let i = rng.random_range(0..n);
                        b[i] = gen_word(rng, &vocab, p_case);
                    }
                    3 if n >= 2 => {
                        let i = rng.random_range(0..n - 1);
                        b.swap(i, i + 1);
                    }
                    4 if n >= 1 => {
                        let i = rng.random_range(0..n);
                        let folded: String = b[i].chars().map(fold).collect();
                        b[i] = variant(&folded, rng.random_range(0..=3));
                    }
                    5 if n >= 2 => {
                        let i = rng.random_range(1..n);
                        b.rotate_left(i);
                    }
                    _ => {}
                }
            }
            b
        };
        Case {
            a: join(rng, &a),
            b: join(rng, &b),
            ignore_case: rng.random_bool(0.5),
        }
    }

    fn check(c: &Case, obs: &mut Obs) {
        // history round (core::history_round): the same inputs with `ignore_case` flipped in between
        if history_round(
            c,
            obs,
            |c| {
                let mut v = c.clone();
                v.ignore_case = !v.ignore_case;
                v
            },
            Self::check,
        ) {
            return;
        }
        let aw = words_of(&c.a);
        let bw = words_of(&c.b);
        let ic = c.ignore_case;
        if ic && !(c.a.chars().chain(c.b.chars())).all(|ch| is_sep(ch) || in_alphabet(ch)) {
            obs.inconclusive("case outside the oracle's case-folding alphabet");
            return;
        }
        let lcs = ref_lcs(&aw, &bw, ic);
        let lcs_exact = ref_lcs(&aw, &bw, false);
        let gr = greedy(&aw, &bw, ic);
        obs.nontrivial_if(lcs >= 2 && gr < lcs);
        obs.tag_if(ic, "ignore-case");
        obs.tag_if(ic && lcs > lcs_exact, "case-folding-matters");
        obs.tag_if(aw.is_empty() != bw.is_empty(), "one-side-empty");
        obs.tag_if(aw.is_empty() && bw.is_empty(), "both-empty");
        obs.tag_if(lcs == 0 && !aw.is_empty() && !bw.is_empty(), "nothing-in-common");
        obs.tag_if(!aw.is_empty() && lcs == aw.len() && lcs == bw.len(), "identical-sequences");
        obs.tag_if(
            c.a.starts_with(is_sep) || c.a.ends_with(is_sep) || c.b.starts_with(is_sep) || c.b.ends_with(is_sep),
            "leading-or-trailing-whitespace",
        );
        obs.tag_if(aw.len().max(bw.len()) > 10, "long");
        obs.max("lcs", lcs as u64);

        // match_words
        if let Some((pairs, na, nb)) = guarded(obs, "match_words", || match_words(&c.a, &c.b, ic)) {
            obs.check(na == aw.len() && nb == bw.len(), "match_words/word-counts", || {
                format!("reported ({na},{nb}), the texts have ({},{}) words", aw.len(), bw.len())
            });
            let in_range = pairs.iter().all(|&(i, j)| i < aw.len() && j < bw.len());
            obs.check(in_range, "match_words/index-out-of-range", || {
                format!("{pairs:?} with ({},{}) words", aw.len(), bw.len())
            });
            let increasing = pairs.windows(2).all(|w| w[0].0 < w[1].0 && w[0].1 < w[1].1);
            obs.check(increasing, "match_words/not-strictly-increasing", || format!("{pairs:?}"));
            if in_range {
                let bad: Vec<_> = pairs
                    .iter()
                    .filter(|&&(i, j)| !same(aw[i], bw[j], ic))
                    .map(|&(i, j)| (i, j, aw[i], bw[j]))
                    .collect();
                obs.check(bad.is_empty(), "match_words/unequal-words-matched", || {
                    format!("ignore_case={ic}: {bad:?}")
                });
            }
            obs.check(pairs.len() == lcs, "match_words/not-longest", || {
                format!("{} pairs {pairs:?}, reference LCS length {lcs}", pairs.len())
            });
        }

        // edited_words: complement of the case-sensitive matching
        let reference = guarded(obs, "match_words", || match_words(&c.a, &c.b, false));
        if let Some((ea, eb)) = guarded(obs, "edited_words", || edited_words(&c.a, &c.b)) {
            let ea: BTreeSet<usize> = ea.into_iter().collect();
            let eb: BTreeSet<usize> = eb.into_iter().collect();
            let in_range = ea.iter().all(|&i| i < aw.len()) && eb.iter().all(|&j| j < bw.len());
            obs.check(in_range, "edited_words/index-out-of-range", || {
                format!("a: {ea:?} b: {eb:?} with ({},{}) words", aw.len(), bw.len())
            });
            obs.check(
                ea.len() + lcs_exact == aw.len() && eb.len() + lcs_exact == bw.len(),
                "edited_words/size",
                || {
                    format!(
                        "edited a: {ea:?} of {} words, edited b: {eb:?} of {} words, reference LCS (case sensitive) {lcs_exact}",
                        aw.len(),
                        bw.len()
                    )
                },
            );
            if let Some((pairs, _, _)) = reference {
                let want_a: BTreeSet<usize> = (0..aw.len())
                    .filter(|i| !pairs.iter().any(|p| p.0 == *i))
                    .collect();
                let want_b: BTreeSet<usize> = (0..bw.len())
                    .filter(|j| !pairs.iter().any(|p| p.1 == *j))
                    .collect();
                obs.check(ea == want_a && eb == want_b, "edited_words/not-complement", || {
                    format!("matching {pairs:?}: expected a {want_a:?} b {want_b:?}, got a {ea:?} b {eb:?}")
                });
            }
        }
        obs.note(json!({
            "words_a": aw.len(),
            "words_b": bw.len(),
            "lcs": lcs,
            "lcs_case_sensitive": lcs_exact,
            "greedy": gr,
        }));
    }
}
