//! Sanitizer / interpreter lanes: secondary oracles that re-run reduced workloads of the same
//! monitor code under Miri (UB, data races, deadlocks, and Miri's own scheduler as an independent
//! source of interleavings) and under AddressSanitizer + LeakSanitizer. Any report is a violation
//! of the property whose workload produced it; the lanes' observation counts go into the evidence.
use crate::core::*;
use crate::supervise::{verif_dir, Aggregate, SanitizerReport};
use serde_json::Value;
use std::process::{Command, Stdio};
use std::time::{Duration, Instant};

pub struct MiriCfg {
    pub lane: &'static str,
    pub procs: u64,
    pub cases_per_proc: u64,
    pub extra_flags: &'static str,
}

/// which properties have a Miri lane (regex-free code only: a Regex is compiled per call in
/// unicode.rs / text.rs, which Miri needs seconds for) and how big it is
pub fn miri_cfg(id: &str, tier: Tier) -> Option<MiriCfg> {
    let threaded = "-Zmiri-preemption-rate=0.05";
    match (id, tier) {
        ("C05", Tier::Quick) | ("C09", Tier::Quick) => Some(MiriCfg {
            lane: "miri",
            procs: 16,
            cases_per_proc: 6,
            extra_flags: threaded,
        }),
        ("C05", Tier::Thorough) | ("C09", Tier::Thorough) => Some(MiriCfg {
            lane: "miri",
            procs: 64,
            cases_per_proc: 24,
            extra_flags: threaded,
        }),
        ("C12", Tier::Thorough) => Some(MiriCfg {
            lane: "miri",
            procs: 16,
            cases_per_proc: 40,
            extra_flags: "",
        }),
        ("C06" | "C07" | "C10" | "C11" | "C16" | "C18", Tier::Thorough) => Some(MiriCfg {
            lane: "miri",
            procs: 16,
            cases_per_proc: 120,
            extra_flags: "",
        }),
        _ => None,
    }
}

/// (interpreter path, rustc-style arguments without the -Zmiri flags, LD_LIBRARY_PATH) from the
/// "[cargo-miri runner] running command: ..." line of `cargo miri run -v`
fn parse_miri_command(stderr: &str) -> Option<(String, Vec<String>, String)> {
    let line = stderr.lines().rev().find(|l| l.contains("running command:"))?;
    let ld = {
        let k = line.find("LD_LIBRARY_PATH=\"")? + "LD_LIBRARY_PATH=\"".len();
        line[k..].split('"').next()?.to_string()
    };
    let start = line.find("/bin/miri\"")?;
    let qstart = line[..start].rfind('"')?;
    let mut toks: Vec<String> = vec![];
    let mut rest = &line[qstart..];
    while let Some(a) = rest.find('"') {
        let after = &rest[a + 1..];
        let b = after.find('"')?;
        toks.push(after[..b].to_string());
        rest = &after[b + 1..];
    }
    let miri = toks.first()?.clone();
    let sep = toks.iter().position(|t| t == "--")?;
    let rustc_args: Vec<String> = toks[1..sep]
        .iter()
        .filter(|t| !t.starts_with("-Zmiri"))
        .cloned()
        .collect();
    if rustc_args.is_empty() {
        return None;
    }
    Some((miri, rustc_args, ld))
}

fn harness_dir() -> std::path::PathBuf {
    verif_dir().join("harness")
}

fn wait_with_timeout(mut child: std::process::Child, secs: u64) -> Option<std::process::Output> {
    // drain stdout/stderr on helper threads so that a chatty child cannot block on a full pipe
    let mut out = child.stdout.take();
    let mut err = child.stderr.take();
    let to = std::thread::spawn(move || {
        let mut s = Vec::new();
        if let Some(o) = out.as_mut() {
            let _ = std::io::Read::read_to_end(o, &mut s);
        }
        s
    });
    let te = std::thread::spawn(move || {
        let mut s = Vec::new();
        if let Some(e) = err.as_mut() {
            let _ = std::io::Read::read_to_end(e, &mut s);
        }
        s
    });
    let t0 = Instant::now();
    let status = loop {
        match child.try_wait() {
            Ok(Some(st)) => break Some(st),
            Ok(None) => {
                if t0.elapsed() > Duration::from_secs(secs) {
                    let _ = child.kill();
                    let _ = child.wait();
                    break None;
                }
                std::thread::sleep(Duration::from_millis(50));
            }
            Err(_) => break None,
        }
    };
    let stdout = to.join().unwrap_or_default();
    let stderr = te.join().unwrap_or_default();
    status.map(|status| std::process::Output {
        status,
        stdout,
        stderr,
    })
}

pub fn miri_lane<P: Prop>(tier: Tier, seed: u64, agg: &mut Aggregate) -> Option<SanitizerReport> {
    let cfg = miri_cfg(P::ID, tier)?;
    let t0 = Instant::now();
    let hd = harness_dir();
    // build once (the runs below then only interpret)
    let build = Command::new("cargo")
        .current_dir(&hd)
        .args(["+nightly", "miri", "run", "-v", "--offline", "--target-dir", "target/miri", "--"])
        .args(["inprocess", P::ID, "--lane", cfg.lane, "--cases", "0"])
        .env("MIRIFLAGS", "-Zmiri-disable-isolation")
        .env("CARGO_NET_OFFLINE", "true")
        .stdin(Stdio::null())
        .stdout(Stdio::piped())
        .stderr(Stdio::piped())
        .spawn();
    let built = match build {
        Ok(c) => wait_with_timeout(c, 1800),
        Err(_) => None,
    };
    // `cargo miri run -v` prints the interpreter invocation; the shards below call the interpreter
    // directly with it (16 `cargo miri run` processes would queue on cargo's build-directory lock)
    let direct = built.as_ref().and_then(|o| {
        parse_miri_command(&String::from_utf8_lossy(&o.stderr))
    });
    if !built.map(|o| o.status.success()).unwrap_or(false) {
        // the Miri lane is a secondary oracle: if the interpreter cannot be built / started here the
        // property is still decided by its native lanes; the evidence says that the lane did not run
        println!(
            "NOTE property={} miri lane not run: cannot build / start the harness under Miri",
            P::ID
        );
        return Some(SanitizerReport {
            tool: "miri".into(),
            detail: "LANE NOT RUN: cannot build / start the harness under Miri (cargo +nightly miri run failed)".into(),
            ..Default::default()
        });
    }
    let total = cfg.procs * cfg.cases_per_proc;
    let mut children = vec![];
    let mut executions = 0u64;
    let mut nontrivial = 0u64;
    let mut reports = 0u64;
    let parallel = 16usize;
    let mut next = 0u64;
    let mut kinds: Vec<String> = vec![];
    let mut finish = |out: Option<std::process::Output>, shard: u64, agg: &mut Aggregate| {
        let Some(out) = out else {
            agg.inconclusive
                .push(format!("miri lane: process {shard} exceeded its wall-clock budget"));
            return;
        };
        let so = String::from_utf8_lossy(&out.stdout);
        let se = String::from_utf8_lossy(&out.stderr);
        for line in so.lines() {
            if let Some(j) = line.strip_prefix("INPROC-SUMMARY ") {
                if let Ok(v) = serde_json::from_str::<Value>(j) {
                    executions += v["evaluations"].as_u64().unwrap_or(0);
                    nontrivial += v["nontrivial"].as_u64().unwrap_or(0);
                    if let Some(hs) = v["nontrivial_hashes"].as_array() {
                        for h in hs {
                            if let Some(h) = h.as_str() {
                                agg.nontrivial_hashes.insert(hash64(&("miri", h)));
                            }
                        }
                    }
                }
            } else if let Some(j) = line.strip_prefix("INPROC-VIOLATION ") {
                if let Ok(v) = serde_json::from_str::<Value>(j) {
                    let p = write_replay(&verif_dir().join("replays").join(P::ID), &v);
                    agg.add_violation(
                        v["signature"].as_str().unwrap_or("?"),
                        v["detail"].as_str().unwrap_or(""),
                        Some(p.display().to_string()),
                        1,
                    );
                }
            }
        }
        // Miri's own findings
        if !out.status.success() {
            let kind = if se.contains("Undefined Behavior") {
                "undefined-behavior"
            } else if se.contains("Data race detected") {
                "data-race"
            } else if se.contains("deadlock") {
                "deadlock"
            } else if se.contains("memory leaked") {
                "memory-leak"
            } else if se.contains("unsupported operation") {
                "unsupported"
            } else {
                "abnormal-exit"
            };
            let tail: String = se
                .lines()
                .filter(|l| l.contains("error") || l.contains("-->") || l.contains("note:"))
                .take(12)
                .collect::<Vec<_>>()
                .join(" | ");
            if kind == "unsupported" || kind == "abnormal-exit" {
                agg.inconclusive.push(format!(
                    "miri lane: process {shard} ended with {kind}: {}",
                    tail.chars().take(400).collect::<String>()
                ));
            } else {
                reports += 1;
                kinds.push(kind.to_string());
                let rec = serde_json::json!({
                    "property": P::ID, "lane": cfg.lane, "tier": tier.name(), "seed": seed,
                    "miri_seed": shard, "signature": format!("miri/{kind}"),
                    "detail": tail, "replay_cmd": format!(
                        "cd /verif/harness && MIRIFLAGS='-Zmiri-disable-isolation -Zmiri-seed={shard} {}' cargo +nightly miri run --offline --target-dir target/miri -- inprocess {} --lane {} --tier {} --seed {seed} --shard {shard} --nshards {} --cases {total}",
                        cfg.extra_flags, P::ID, cfg.lane, tier.name(), cfg.procs),
                });
                let p = write_replay(&verif_dir().join("replays").join(P::ID), &rec);
                agg.add_violation(
                    &format!("miri/{kind}"),
                    &tail.chars().take(600).collect::<String>(),
                    Some(p.display().to_string()),
                    1,
                );
            }
        }
    };
    while next < cfg.procs || !children.is_empty() {
        while children.len() < parallel && next < cfg.procs {
            let shard = next;
            next += 1;
            let flags = format!(
                "-Zmiri-disable-isolation -Zmiri-seed={} {}",
                seed.wrapping_mul(1000).wrapping_add(shard),
                cfg.extra_flags
            );
            let prog_args: Vec<String> = [
                "inprocess", P::ID, "--lane", cfg.lane, "--tier", tier.name(), "--seed",
                &seed.to_string(), "--shard", &shard.to_string(), "--nshards",
                &cfg.procs.to_string(), "--cases", &total.to_string(),
                // stop starting new cases well before the wall-clock limit of the process below
                "--budget-s", tier.pick("300", "1200"),
            ]
            .iter()
            .map(|s| s.to_string())
            .collect();
            let c = if let Some((miri, rustc_args, ld)) = &direct {
                Command::new(miri)
                    .current_dir(&hd)
                    .args(rustc_args)
                    .args(flags.split_whitespace())
                    .arg("--")
                    .args(&prog_args)
                    .env("LD_LIBRARY_PATH", ld)
                    .env("MIRI_CWD", &hd)
                    .env_remove("MIRI_BE_RUSTC")
                    .stdin(Stdio::null())
                    .stdout(Stdio::piped())
                    .stderr(Stdio::piped())
                    .spawn()
            } else {
                Command::new("cargo")
                    .current_dir(&hd)
                    .args(["+nightly", "miri", "run", "--offline", "--target-dir", "target/miri", "--"])
                    .args(&prog_args)
                    .env("MIRIFLAGS", &flags)
                    .env("CARGO_NET_OFFLINE", "true")
                    .stdin(Stdio::null())
                    .stdout(Stdio::piped())
                    .stderr(Stdio::piped())
                    .spawn()
            };
            if let Ok(c) = c {
                children.push((shard, c));
            }
        }
        if let Some((shard, c)) = children.pop() {
            let out = wait_with_timeout(c, tier.pick(600, 1800));
            finish(out, shard, agg);
        }
    }
    if executions == 0 {
        agg.inconclusive
            .push("miri lane: no case was executed under Miri".to_string());
    }
    Some(SanitizerReport {
        tool: "miri (UB, data races, deadlocks; -Zmiri-seed per process)".into(),
        executions,
        reports,
        detail: format!(
            "{} processes x up to {} cases of lane '{}' (each process stops starting cases after {} s), {} non-trivial; report kinds: {:?}",
            cfg.procs, cfg.cases_per_proc, cfg.lane, tier.pick(300, 1200), nontrivial, kinds
        ),
        wall_s: t0.elapsed().as_secs_f64(),
    })
}

/// ASan + LSan: the quick workload of the property, scaled down, with the instrumented binary
pub fn asan_lane<P: Prop>(tier: Tier, seed: u64, agg: &mut Aggregate) -> Option<SanitizerReport> {
    if tier != Tier::Thorough {
        return None;
    }
    let t0 = Instant::now();
    let hd = harness_dir();
    let build = Command::new("cargo")
        .current_dir(&hd)
        .args(["+nightly", "build", "--offline", "--profile", "checked"])
        .args(["--target", "x86_64-unknown-linux-gnu", "--target-dir", "target/asan"])
        .env("RUSTFLAGS", "-Zsanitizer=address -Cforce-frame-pointers=yes")
        .env("CARGO_NET_OFFLINE", "true")
        .stdin(Stdio::null())
        .stdout(Stdio::piped())
        .stderr(Stdio::piped())
        .spawn();
    let built = match build {
        Ok(c) => wait_with_timeout(c, 2400),
        Err(_) => None,
    };
    if !built.map(|o| o.status.success()).unwrap_or(false) {
        println!(
            "NOTE property={} asan lane not run: cannot build the harness with -Zsanitizer=address",
            P::ID
        );
        return Some(SanitizerReport {
            tool: "AddressSanitizer".into(),
            detail: "LANE NOT RUN: cargo +nightly build -Zsanitizer=address failed".into(),
            ..Default::default()
        });
    }
    let bin = hd.join("target/asan/x86_64-unknown-linux-gnu/checked/tuverif");
    let sub = verif_dir().join("run").join("asan").join(P::ID);
    let _ = std::fs::remove_dir_all(&sub);
    let _ = std::fs::create_dir_all(&sub);
    // known findings apply in the sub-run as well
    let _ = std::fs::copy(
        verif_dir().join("known_findings.json"),
        sub.join("known_findings.json"),
    );
    let _ = std::fs::create_dir_all(sub.join("harness/target"));
    let child = Command::new(&bin)
        .args(["supervise", P::ID, "--tier", "quick", "--seed", &seed.to_string()])
        .env("TUVERIF_DIR", &sub)
        .env("TUVERIF_NO_EXTRA", "1")
        .env("TUVERIF_HANG_FACTOR", "8")
        .env("TUVERIF_SCALE", "0.25")
        .env(
            "ASAN_OPTIONS",
            "halt_on_error=1:abort_on_error=1:detect_leaks=1:detect_stack_use_after_return=0",
        )
        .stdin(Stdio::null())
        .stdout(Stdio::piped())
        .stderr(Stdio::piped())
        .spawn();
    let out = match child {
        Ok(c) => wait_with_timeout(c, 3600),
        Err(_) => None,
    };
    let Some(out) = out else {
        agg.inconclusive
            .push("asan lane: sub-run did not finish within its wall-clock budget".to_string());
        return None;
    };
    let ev: Value = std::fs::read_to_string(sub.join("evidence").join(format!("{}.json", P::ID)))
        .ok()
        .and_then(|s| serde_json::from_str(&s).ok())
        .unwrap_or(Value::Null);
    let executions = ev["coverage"]["evaluations"].as_u64().unwrap_or(0);
    let mut reports = 0;
    if let Some(vs) = ev["violation_signatures"].as_array() {
        for v in vs {
            let sig = v["signature"].as_str().unwrap_or("?");
            // a worker killed by the sanitizer shows up as process-died/signal-6
            let is_sanitizer = sig.starts_with("process-died/signal");
            if is_sanitizer {
                reports += 1;
            }
            agg.add_violation(
                &if is_sanitizer {
                    format!("asan/{sig}")
                } else {
                    sig.to_string()
                },
                v["detail"].as_str().unwrap_or(""),
                v["replay"].as_str().map(|s| s.to_string()),
                v["count"].as_u64().unwrap_or(1),
            );
        }
    }
    if out.status.code() == Some(2) {
        for r in ev["inconclusive_reasons"].as_array().cloned().unwrap_or_default() {
            agg.inconclusive
                .push(format!("asan lane: {}", r.as_str().unwrap_or("?")));
        }
    }
    if executions == 0 {
        agg.inconclusive
            .push("asan lane: no case was executed under AddressSanitizer".to_string());
    }
    Some(SanitizerReport {
        tool: "AddressSanitizer + LeakSanitizer (halt_on_error, quick workload x 0.25)".into(),
        executions,
        reports,
        detail: format!("sub-run exit code {:?}", out.status.code()),
        wall_s: t0.elapsed().as_secs_f64(),
    })
}

pub fn run<P: Prop>(tier: Tier, seed: u64, agg: &mut Aggregate) -> Vec<SanitizerReport> {
    if std::env::var("TUVERIF_NO_EXTRA").is_ok() {
        return vec![];
    }
    let mut v = vec![];
    if let Some(r) = miri_lane::<P>(tier, seed, agg) {
        v.push(r);
    }
    if let Some(r) = asan_lane::<P>(tier, seed, agg) {
        v.push(r);
    }
    v
}
