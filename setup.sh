#!/bin/bash
# setup_cmd: offline build of the harness (both profiles). Everything comes from files on disk.
set -e
cd "$(dirname "$0")"
export CARGO_NET_OFFLINE=true
mkdir -p run evidence replays
( cd harness && cargo build --offline --profile checked && cargo build --offline --release )
# pre-build the harness for the Miri lane of the quick tier (C05, C09); not fatal if Miri is unavailable
( cd harness && MIRIFLAGS="-Zmiri-disable-isolation" cargo +nightly miri run --offline --target-dir target/miri -- inprocess C05 --lane miri --cases 0 >/dev/null 2>&1 ) || echo "note: Miri pre-build failed (the Miri lanes will report that they did not run)"
echo "setup ok"
