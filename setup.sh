#!/bin/bash
# setup_cmd: offline build of the harness (both profiles). Everything comes from files on disk.
set -e
cd "$(dirname "$0")"
export CARGO_NET_OFFLINE=true
mkdir -p run evidence replays
( cd harness && cargo build --offline --profile checked && cargo build --offline --release )
echo "setup ok"
